package main

// Discharging obligations: z3-new 5.1.0, z3 4.8.12 and cvc5 1.0 raced per obligation.

import (
	"bytes"
	"context"
	"fmt"
	"os"
	osexec "os/exec"
	"path/filepath"
	"strings"
	"sync"
	"sync/atomic"
	"time"
)

type solverSpec struct {
	name string
	argv func(file string, timeoutS int, seed int) []string
}

var solvers = []solverSpec{
	{"z3-5.1.0", func(f string, t int, seed int) []string {
		return []string{"z3-new", fmt.Sprintf("-T:%d", t), fmt.Sprintf("smt.random_seed=%d", seed), f}
	}},
	{"z3-4.8.12", func(f string, t int, seed int) []string {
		return []string{"/usr/bin/z3", fmt.Sprintf("-T:%d", t), fmt.Sprintf("smt.random_seed=%d", seed), f}
	}},
	{"cvc5-1.0", func(f string, t int, seed int) []string {
		return []string{"cvc5", "-q", fmt.Sprintf("--tlimit=%d", t*1000), fmt.Sprintf("--seed=%d", seed), f}
	}},
}

type solveOpts struct {
	timeoutS   int
	seed       int
	scratch    string
	needTwo    bool // thorough: two independent solvers must agree on unsat
	workers    int
	keepModels bool
	altSeeds   []int // second chance: additional z3 runs with these seeds race along (any unsat answer is a proof)
}

type solverRun struct {
	solver string
	result string
	out    string
	secs   float64
}

var fileSeq int64

// solverSlots bounds the number of solver processes running at any time (all callers share it).
var solverSlots = make(chan struct{}, 15)

func runSolver(ctx context.Context, sp solverSpec, file string, opts solveOpts) solverRun {
	argv := sp.argv(file, opts.timeoutS, opts.seed)
	select {
	case solverSlots <- struct{}{}:
	case <-ctx.Done():
		return solverRun{sp.name, "cancelled", "", 0}
	}
	defer func() { <-solverSlots }()
	start := time.Now()
	cctx, cancel := context.WithTimeout(ctx, time.Duration(opts.timeoutS+5)*time.Second)
	defer cancel()
	cmd := osexec.CommandContext(cctx, argv[0], argv[1:]...)
	var out bytes.Buffer
	cmd.Stdout = &out
	cmd.Stderr = &out
	_ = cmd.Run()
	secs := time.Since(start).Seconds()
	text := out.String()
	first := strings.TrimSpace(strings.SplitN(text, "\n", 2)[0])
	res := "unknown"
	switch {
	case first == "unsat":
		res = "unsat"
	case first == "sat":
		res = "sat"
	case first == "unknown":
		res = "unknown"
	case first == "timeout" || strings.Contains(first, "timeout") || cctx.Err() != nil:
		res = "timeout"
	case strings.HasPrefix(first, "(error") || strings.Contains(text, "(error"):
		res = "error"
	}
	return solverRun{sp.name, res, text, secs}
}

// solveOne races the solvers on one obligation.
func solveOne(o *Obligation, idx int, opts solveOpts) {
	if o.Result != "" {
		return // trivial, or already decided in a Houdini round
	}
	var script string
	if o.vc != nil {
		script = o.vc.finalScript(o, true)
	} else {
		script = o.Script // self-contained query (e.g. a regular-language lemma)
	}
	if o.ExpectSat && opts.timeoutS > 3 {
		opts.timeoutS = 3 // probes only look for a quickly found contradiction
	}
	file := filepath.Join(opts.scratch, fmt.Sprintf("o%05d_%d.smt2", idx, atomic.AddInt64(&fileSeq, 1)))
	if err := os.WriteFile(file, []byte(script), 0o644); err != nil {
		o.Result = "error"
		o.Output = err.Error()
		return
	}
	defer func() {
		if !opts.keepModels {
			os.Remove(file)
		}
	}()
	ctx, cancel := context.WithCancel(context.Background())
	defer cancel()
	solvers := solvers
	if len(opts.altSeeds) > 0 && !opts.needTwo {
		solvers = append([]solverSpec(nil), solvers...)
		for _, as := range opts.altSeeds {
			as := as
			solvers = append(solvers, solverSpec{fmt.Sprintf("z3-5.1.0#seed%d", as), func(f string, t int, _ int) []string {
				return []string{"z3-new", fmt.Sprintf("-T:%d", t), fmt.Sprintf("smt.random_seed=%d", as), f}
			}})
		}
	}
	ch := make(chan solverRun, len(solvers))
	launched := 0
	launch := func(i int) {
		launched++
		go func() { ch <- runSolver(ctx, solvers[i], file, opts) }()
	}
	order := []int{0, 1, 2}
	if opts.seed%3 == 1 {
		order = []int{0, 2, 1}
	}
	for i := 3; i < len(solvers); i++ {
		order = append(order, i)
	}
	launch(order[0])
	stagger := time.NewTimer(4 * time.Second)
	defer stagger.Stop()
	var runs []solverRun
	definitive := map[string][]solverRun{}
	total := 0.0
	for done := 0; done < len(solvers); {
		select {
		case <-stagger.C:
			for launched < len(solvers) {
				launch(order[launched])
			}
		case r := <-ch:
			done++
			runs = append(runs, r)
			total += r.secs
			if r.result == "sat" || r.result == "unsat" {
				definitive[r.result] = append(definitive[r.result], r)
				need := 1
				if opts.needTwo && r.result == "unsat" && !o.ExpectSat {
					need = 2
				}
				if len(definitive[r.result]) >= need {
					o.Result = r.result
					o.Solver = joinSolvers(definitive[r.result])
					o.Seconds = total
					o.Output = r.out
					if r.result == "sat" {
						o.Model = r.out
					}
					return
				}
			}
			if launched < len(solvers) {
				launch(order[launched])
			}
		}
	}
	// no definitive (or not enough agreeing) answers
	o.Seconds = total
	if len(definitive["sat"]) > 0 && len(definitive["unsat"]) > 0 {
		o.Result = "disagree"
	} else if len(definitive["unsat"]) > 0 {
		o.Result = "unsat-single"
		o.Solver = joinSolvers(definitive["unsat"])
	} else {
		o.Result = "unknown"
		for _, r := range runs {
			if r.result == "error" {
				o.Result = "error"
			}
		}
		allTimeout := true
		for _, r := range runs {
			if r.result != "timeout" {
				allTimeout = false
			}
		}
		if allTimeout {
			o.Result = "timeout"
		}
	}
	var sb strings.Builder
	for _, r := range runs {
		fmt.Fprintf(&sb, "[%s] %s (%.2fs)\n%s\n", r.solver, r.result, r.secs, truncateOut(r.out, 600))
	}
	o.Output = sb.String()
}

func truncateOut(s string, n int) string {
	if len(s) > n {
		return s[:n] + "…"
	}
	return s
}

func joinSolvers(rs []solverRun) string {
	var n []string
	for _, r := range rs {
		n = append(n, r.solver)
	}
	return strings.Join(n, "+")
}

func solveAll(obls []*Obligation, opts solveOpts) {
	if opts.workers <= 0 {
		opts.workers = 12
	}
	var wg sync.WaitGroup
	if opts.workers < 30 {
		opts.workers = 30 // obligations in flight; the number of solver processes is bounded by solverSlots
	}
	sem := make(chan struct{}, opts.workers)
	for i, o := range obls {
		wg.Add(1)
		sem <- struct{}{}
		go func(i int, o *Obligation) {
			defer wg.Done()
			defer func() { <-sem }()
			solveOne(o, i, opts)
		}(i, o)
	}
	wg.Wait()
}

// ok reports whether an obligation counts as discharged.
func (o *Obligation) ok() bool {
	if o.ExpectSat {
		return o.Result != "unsat" && o.Result != "error" && o.Result != "disagree"
	}
	return o.Result == "unsat"
}
