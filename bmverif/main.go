package main

import (
	"strconv"
	"sync"
	"flag"
	"fmt"
	"os"
	"sort"
	"strings"
	"time"
)

func main() {
	if len(os.Args) < 2 {
		fmt.Fprintln(os.Stderr, "usage: bmverif verify|check ...")
		exit(2)
	}
	switch os.Args[1] {
	case "verify":
		cmdVerify(os.Args[2:])
	case "check":
		cmdCheck(os.Args[2:])
	case "replay":
		cmdReplay(os.Args[2:])
	default:
		fmt.Fprintln(os.Stderr, "unknown command", os.Args[1])
		exit(2)
	}
}

var (
	scratchMu   sync.Mutex
	scratchDirs []string
)

func scratchDir() string {
	base := os.Getenv("BMVERIF_SCRATCH")
	if base == "" {
		base = "/var/tmp"
	}
	d, err := os.MkdirTemp(base, "bmverif-")
	if err != nil {
		panic(err)
	}
	scratchMu.Lock()
	scratchDirs = append(scratchDirs, d)
	scratchMu.Unlock()
	return d
}

// exit removes every scratch directory of this process (deferred removals do not run on os.Exit) and exits.
func exit(code int) {
	scratchMu.Lock()
	for _, d := range scratchDirs {
		os.RemoveAll(d)
	}
	scratchMu.Unlock()
	os.Exit(code)
}

// cmdVerify: development entry point — verify named functions and print every obligation.
func cmdVerify(args []string) {
	fs := flag.NewFlagSet("verify", flag.ExitOnError)
	repo := fs.String("repo", "/repo", "repository root")
	pkgs := fs.String("pkgs", "./pkg/procbuilder,./pkg/bondmachine", "package patterns")
	funcs := fs.String("f", "", "comma separated function keys (pkg.Func or pkg.Type.Method); empty = all with contracts")
	timeout := fs.Int("t", 10, "solver timeout (s)")
	dump := fs.String("dump", "", "directory to dump SMT scripts of failed obligations")
	specDir := fs.String("spec", "/verif/spec", "directory with *.spec files")
	showAll := fs.Bool("v", false, "print every obligation")
	dumpAll := fs.Bool("dumpall", false, "dump the SMT script of every obligation (with -dump)")
	iface := fs.String("iface", "", "verify all implementers against this interface-level contract key (iface:pkg.I.M)")
	only := fs.String("only", "", "with -iface: restrict to functions whose key contains this string")
	fs.Parse(args)
	t0 := time.Now()
	eng, err := loadEngine(*repo, strings.Split(*pkgs, ","), []string{*specDir})
	if err != nil {
		fmt.Fprintln(os.Stderr, "load:", err)
		exit(2)
	}
	fmt.Printf("loaded in %.1fs; %d contracts\n", time.Since(t0).Seconds(), len(eng.contracts))
	var keys []string
	if *funcs != "" {
		keys = strings.Split(*funcs, ",")
	} else {
		for k, fc := range eng.contracts {
			if !fc.Extern && !strings.HasPrefix(k, "iface:") && !strings.HasPrefix(k, "functype:") {
				keys = append(keys, k)
			}
		}
		sort.Strings(keys)
	}
	var all []*Obligation
	if *iface != "" {
		ifc := eng.contracts[*iface]
		if ifc == nil {
			fmt.Println("no such interface contract", *iface)
			exit(2)
		}
		nOut := 0
		var tasks []verifyTask
		targets := eng.ifaceTargets(*iface)
		if strings.HasPrefix(*iface, "functype:") {
			targets = eng.functypeTargets(*iface)
		}
		for _, fn := range targets {
			fn := fn
			if *only != "" && !strings.Contains(funcKey(fn), *only) {
				continue
			}
			if _, ex := eng.excluded[funcKey(fn)]; ex {
				continue
			}
			tasks = append(tasks, verifyTask{funcKey(fn), func() *VC { return eng.verifyAgainstIface(fn, ifc, eng.contracts[funcKey(fn)]) }})
		}
		vcs := runTasks(tasks, 8)
		for i, vc := range vcs {
			fn := vc.fn
			_ = i
			if vc.outside != "" {
				nOut++
				fmt.Printf("!! %s outside subset: %s\n", funcKey(fn), vc.outside)
				continue
			}
			for _, w := range vc.warnings {
				fmt.Printf("   warning %s: %s\n", funcKey(fn), w)
			}
			all = append(all, vc.obls...)
		}
		fmt.Printf("%d targets outside subset\n", nOut)
		keys = nil
	}
	var ftasks []verifyTask
	for _, k := range keys {
		fn := eng.lookupFunc(k)
		if fn == nil {
			fmt.Printf("!! function %s not found\n", k)
			continue
		}
		fc := eng.contracts[k]
		if fc != nil && fc.Trusted {
			fmt.Printf("-- %s: trusted (not verified)\n", k)
			continue
		}
		ftasks = append(ftasks, verifyTask{k, func() *VC { return eng.verifyFunction(fn, fc) }})
	}
	for i, vc := range runTasks(ftasks, 8) {
		k := ftasks[i].key
		if vc.outside != "" {
			fmt.Printf("!! %s outside subset: %s\n", k, vc.outside)
			continue
		}
		for _, w := range vc.warnings {
			fmt.Printf("   warning %s: %s\n", k, w)
		}
		all = append(all, vc.obls...)
	}
	scratch := scratchDir()
	defer os.RemoveAll(scratch)
	vseed := 0
	if sv := os.Getenv("VERIF_SEED"); sv != "" {
		if v, err := strconv.Atoi(sv); err == nil {
			vseed = v
		}
	}
	solveAll(all, solveOpts{timeoutS: *timeout, seed: vseed, scratch: scratch, workers: 14})
	bad := 0
	for _, o := range all {
		if !o.ok() {
			bad++
		}
		if *showAll || !o.ok() || *dumpAll {
			mark := "ok  "
			if !o.ok() {
				mark = "FAIL"
			}
			fmt.Printf("%s %-70s %-8s %-18s %.2fs  %s\n", mark, o.Name, o.Result, o.Solver, o.Seconds, o.Pos)
			if (!o.ok() || *dumpAll) && *dump != "" {
				os.MkdirAll(*dump, 0o755)
				fn := *dump + "/" + sanitize(o.Name) + ".smt2"
				os.WriteFile(fn, []byte(o.vc.finalScript(o, true)), 0o644)
				os.WriteFile(fn+".out", []byte(o.Output), 0o644)
			}
		}
	}
	fmt.Printf("%d obligations, %d not discharged, %.1fs\n", len(all), bad, time.Since(t0).Seconds())
	if bad > 0 {
		exit(1)
	}
}

