package main

// Read footprints (by heap map) of functions, and application terms for pure functions.

import (
	"fmt"
	"go/token"
	"go/types"
	"sort"
	"strings"

	"golang.org/x/tools/go/ssa"
)

type readSet struct {
	names   map[string]bool
	unknown string // non-empty: footprint could not be bounded (reason)
}

// readsOf / ifaceReads are the entry points; footprints are computed under one lock (they are memoised and cheap),
// the recursive workers below run with the lock held.
func (eng *Engine) readsOf(fn *ssa.Function) *readSet {
	eng.readsMu.Lock()
	defer eng.readsMu.Unlock()
	return eng.readsOfL(fn).snapshot()
}

func (eng *Engine) ifaceReads(it types.Type, m *types.Func) *readSet {
	eng.readsMu.Lock()
	defer eng.readsMu.Unlock()
	return eng.ifaceReadsL(it, m).snapshot()
}

func (r *readSet) snapshot() *readSet {
	c := &readSet{names: make(map[string]bool, len(r.names)), unknown: r.unknown}
	for k := range r.names {
		c.names[k] = true
	}
	return c
}

func (eng *Engine) readsOfL(fn *ssa.Function) *readSet {
	if eng.readsMemo == nil {
		eng.readsMemo = map[*ssa.Function]*readSet{}
	}
	if r, ok := eng.readsMemo[fn]; ok {
		return r
	}
	// provisional entry against recursion
	rs := &readSet{names: map[string]bool{}}
	eng.readsMemo[fn] = rs
	eng.computeReads(fn, rs)
	return rs
}

func (eng *Engine) computeReads(fn *ssa.Function, rs *readSet) {
	if len(fn.Blocks) == 0 {
		key := funcKey(fn)
		if pureExterns[key] {
			return
		}
		if fc := eng.contracts[key]; fc != nil && fc.Pure {
			return // assumed pure extern: result is a function of its arguments only
		}
		rs.unknown = "external function " + key
		return
	}
	vc := newVC(eng, fn) // used for heap naming only
	addLoad := func(addr ssa.Value) {
		switch x := addr.(type) {
		case *ssa.Alloc:
			if x.Heap {
				et := x.Type().(*types.Pointer).Elem()
				if at, ok := et.Underlying().(*types.Array); ok {
					rs.names[vc.elemHeap(at.Elem()).name] = true
				} else if _, ok := et.Underlying().(*types.Struct); !ok {
					rs.names[vc.derefHeap(et).name] = true
				}
			}
		case *ssa.FieldAddr:
			pt := x.X.Type().Underlying().(*types.Pointer).Elem()
			// locals and value elements are not heap reads of their own
			root := x.X
			for {
				if fa, ok := root.(*ssa.FieldAddr); ok {
					root = fa.X
					continue
				}
				break
			}
			if a, ok := root.(*ssa.Alloc); ok && !a.Heap {
				return
			}
			if ia, ok := root.(*ssa.IndexAddr); ok {
				if sl, ok := ia.X.Type().Underlying().(*types.Slice); ok {
					rs.names[vc.elemHeap(sl.Elem()).name] = true
					return
				}
			}
			ft := pt.Underlying().(*types.Struct).Field(x.Field).Type()
			if _, nested := ft.Underlying().(*types.Struct); nested {
				// whole nested struct load: all its fields
				var addAll func(t types.Type)
				addAll = func(t types.Type) {
					st := t.Underlying().(*types.Struct)
					for i := 0; i < st.NumFields(); i++ {
						if _, n2 := st.Field(i).Type().Underlying().(*types.Struct); n2 {
							addAll(st.Field(i).Type())
						} else {
							rs.names[vc.fieldHeap(t, i).name] = true
						}
					}
				}
				addAll(ft)
				return
			}
			rs.names[vc.fieldHeap(pt, x.Field).name] = true
		case *ssa.IndexAddr:
			switch t := x.X.Type().Underlying().(type) {
			case *types.Slice:
				rs.names[vc.elemHeap(t.Elem()).name] = true
			case *types.Pointer:
				if a, ok := x.X.(*ssa.Alloc); ok && !a.Heap {
					return
				}
				at := t.Elem().Underlying().(*types.Array)
				rs.names[vc.elemHeap(at.Elem()).name] = true
			}
		case *ssa.Global:
			rs.names[vc.globalHeap(x).name] = true
		default:
			if pt, ok := addr.Type().Underlying().(*types.Pointer); ok {
				if st, ok := pt.Elem().Underlying().(*types.Struct); ok {
					for i := 0; i < st.NumFields(); i++ {
						if _, n2 := st.Field(i).Type().Underlying().(*types.Struct); !n2 {
							rs.names[vc.fieldHeap(pt.Elem(), i).name] = true
						}
					}
					return
				}
				rs.names[vc.derefHeap(pt.Elem()).name] = true
			}
		}
	}
	for _, b := range fn.Blocks {
		for _, ins := range b.Instrs {
			switch x := ins.(type) {
			case *ssa.UnOp:
				if x.Op == token.MUL {
					addLoad(x.X)
				}
				if x.Op == token.ARROW {
					rs.unknown = "channel receive"
				}
			case *ssa.Lookup:
				if mt, ok := x.X.Type().Underlying().(*types.Map); ok {
					has, val := vc.mapHeaps(mt)
					rs.names[has.name] = true
					rs.names[val.name] = true
				}
			case *ssa.Range:
				if mt, ok := x.X.Type().Underlying().(*types.Map); ok {
					has, val := vc.mapHeaps(mt)
					rs.names[has.name] = true
					rs.names[val.name] = true
					rs.unknown = "range over map (iteration order)"
				}
			case *ssa.Convert:
				// string([]byte) reads the bytes
				if sl, ok := x.X.Type().Underlying().(*types.Slice); ok {
					rs.names[vc.elemHeap(sl.Elem()).name] = true
				}
			case *ssa.Select, *ssa.Go:
				rs.unknown = "concurrency"
			case *ssa.Call:
				c := &x.Call
				if bi, ok := c.Value.(*ssa.Builtin); ok {
					switch bi.Name() {
					case "append", "copy":
						for _, a := range c.Args {
							if sl, ok := a.Type().Underlying().(*types.Slice); ok {
								rs.names[vc.elemHeap(sl.Elem()).name] = true
							}
						}
					}
					continue
				}
				if c.IsInvoke() {
					sub := eng.ifaceReadsL(c.Value.Type(), c.Method)
					for n := range sub.names {
						rs.names[n] = true
					}
					if sub.unknown != "" && rs.unknown == "" {
						rs.unknown = sub.unknown
					}
					continue
				}
				callee := c.StaticCallee()
				if callee == nil {
					rs.unknown = "dynamic call"
					continue
				}
				if _, isClosure := c.Value.(*ssa.MakeClosure); isClosure {
					rs.unknown = "closure call"
				}
				sub := eng.readsOfL(callee)
				for n := range sub.names {
					rs.names[n] = true
				}
				if sub.unknown != "" && rs.unknown == "" {
					rs.unknown = sub.unknown
				}
			}
		}
	}
}

// implementers of a named interface among the loaded repository packages (closed world).
func (eng *Engine) implementers(it types.Type) []types.Type {
	iface, ok := it.Underlying().(*types.Interface)
	if !ok {
		return nil
	}
	key := types.TypeString(it, nil)
	eng.mu.Lock()
	if eng.implMemo == nil {
		eng.implMemo = map[string][]types.Type{}
	}
	if r, ok := eng.implMemo[key]; ok {
		eng.mu.Unlock()
		return r
	}
	eng.mu.Unlock()
	var out []types.Type
	var names []string
	for n := range eng.pkgs {
		names = append(names, n)
	}
	sort.Strings(names)
	for _, n := range names {
		p := eng.pkgs[n]
		scope := p.Types.Scope()
		for _, tn := range scope.Names() {
			obj, ok := scope.Lookup(tn).(*types.TypeName)
			if !ok || obj.IsAlias() {
				continue
			}
			t := obj.Type()
			if _, isIface := t.Underlying().(*types.Interface); isIface {
				continue
			}
			if types.Implements(t, iface) {
				out = append(out, t)
			} else if types.Implements(types.NewPointer(t), iface) {
				out = append(out, types.NewPointer(t))
			}
		}
	}
	eng.mu.Lock()
	eng.implMemo[key] = out
	eng.mu.Unlock()
	return out
}

func (eng *Engine) methodOf(t types.Type, m *types.Func) *ssa.Function {
	ms := eng.prog.MethodSets.MethodSet(t)
	sel := ms.Lookup(m.Pkg(), m.Name())
	if sel == nil {
		return nil
	}
	fn := eng.prog.MethodValue(sel)
	if fn != nil && fn.Synthetic != "" {
		if obj, ok := sel.Obj().(*types.Func); ok {
			if f2 := eng.prog.FuncValue(obj); f2 != nil {
				return f2
			}
		}
	}
	return fn
}

func (eng *Engine) ifaceReadsL(it types.Type, m *types.Func) *readSet {
	rs := &readSet{names: map[string]bool{}}
	impls := eng.implementers(it)
	if len(impls) == 0 {
		if m.Name() == "Error" {
			return rs
		}
		rs.unknown = "interface " + types.TypeString(it, nil) + " without known implementers"
		return rs
	}
	for _, t := range impls {
		fn := eng.methodOf(t, m)
		if fn == nil {
			rs.unknown = "method not found"
			continue
		}
		sub := eng.readsOfL(fn)
		for n := range sub.names {
			rs.names[n] = true
		}
		if sub.unknown != "" && rs.unknown == "" {
			rs.unknown = sub.unknown + " (in " + funcKey(fn) + ")"
		}
	}
	return rs
}

// pureApp builds the application term of a pure function: an uninterpreted function of the arguments and of the
// current values of the heap maps in its read footprint.
func (vc *VC) pureApp(key string, rs *readSet, args []Val, st *State, resIdx int, resSort string) string {
	var sorts, terms []string
	for _, a := range args {
		sorts = append(sorts, a.S)
		terms = append(terms, a.T)
	}
	if rs != nil && rs.unknown == "" {
		for _, n := range sortedKeys(rs.names) {
			hi := vc.heapByName(n)
			if hi == nil {
				continue
			}
			sorts = append(sorts, hi.sort)
			terms = append(terms, vc.heapGet(st, hi))
		}
	} else {
		sorts = append(sorts, "Int")
		terms = append(terms, vc.stateVersion(st))
		why := "no footprint"
		if rs != nil {
			why = rs.unknown
		}
		vc.eng.noteAssumption("pure function " + key + " modelled as a function of its arguments and a whole-heap version (" + why + ")")
	}
	name := "pf_" + sanitize(key)
	if resIdx > 0 {
		name += "_" + string(rune('0'+resIdx))
	}
	vc.declFun(name, sorts, resSort)
	return sApp(name, terms...)
}

// heapByName re-creates heap info for a name computed by another VC (names are type-directed and global).
func (vc *VC) heapByName(name string) *heapInfo {
	if hi, ok := vc.heaps[name]; ok {
		return hi
	}
	if hi, ok := vc.eng.heapRegistry(name); ok {
		c := *hi
		vc.heaps[name] = &c
		// make sure datatypes of the value sort are known to this VC
		if c.valType != nil {
			vc.sorts.sortOf(c.valType)
		}
		return &c
	}
	return nil
}

func (eng *Engine) heapRegistry(name string) (*heapInfo, bool) {
	eng.mu.Lock()
	defer eng.mu.Unlock()
	hi, ok := eng.heapReg[name]
	return hi, ok
}

func (eng *Engine) registerHeap(hi *heapInfo) {
	eng.mu.Lock()
	defer eng.mu.Unlock()
	if eng.heapReg == nil {
		eng.heapReg = map[string]*heapInfo{}
	}
	if _, ok := eng.heapReg[hi.name]; !ok {
		c := *hi
		eng.heapReg[hi.name] = &c
	}
}

func (vc *VC) stateVersion(st *State) string {
	// a term that changes whenever any heap map of the state changes
	var parts []string
	for _, k := range sortedKeys(st.heap) {
		parts = append(parts, k+"="+st.heap[k])
	}
	key := strings.Join(parts, ";") + "|" + string(rune(st.epoch))
	if vc.versions == nil {
		vc.versions = map[string]string{}
	}
	if t, ok := vc.versions[key]; ok {
		return t
	}
	t := vc.freshConst("heapver", "Int")
	vc.versions[key] = t
	return t
}

// ---------------------------------------------------------------------------
// Declared read footprints (reads clauses): location sets, coverage checks, and precise pure applications.

type locSet struct {
	fieldRefs map[string][]string // heap name -> references whose cell may be read
	elemArrs  map[string][]string // heap name -> slice terms whose backing array may be read
	globals   map[string]bool
}

func (ex *exec) evalLocSet(env *SpecEnv, locs []AssignLoc) (*locSet, error) {
	vc := ex.vc
	ls := &locSet{fieldRefs: map[string][]string{}, elemArrs: map[string][]string{}, globals: map[string]bool{}}
	for _, a := range locs {
		switch x := a.E.(type) {
		case *SSelect:
			b, err := env.term(x.X)
			if err != nil {
				return nil, fmt.Errorf("%s: %v", a.Text, err)
			}
			hi, ref, err := ex.fieldCell(env, b, x.Sel)
			if err != nil {
				return nil, fmt.Errorf("%s: %v", a.Text, err)
			}
			ls.fieldRefs[hi.name] = append(ls.fieldRefs[hi.name], ref)
		case *SIndex:
			b, err := env.term(x.X)
			if err != nil {
				return nil, fmt.Errorf("%s: %v", a.Text, err)
			}
			switch {
			case b.S == SSlice:
				hi := vc.elemHeap(b.Typ.Underlying().(*types.Slice).Elem())
				ls.elemArrs[hi.name] = append(ls.elemArrs[hi.name], b.T)
			default:
				if m, ok := b.Typ.Underlying().(*types.Map); ok {
					has, val := vc.mapHeaps(m)
					ls.fieldRefs[has.name] = append(ls.fieldRefs[has.name], b.T)
					ls.fieldRefs[val.name] = append(ls.fieldRefs[val.name], b.T)
				} else {
					return nil, fmt.Errorf("%s: indexed location on non-slice", a.Text)
				}
			}
		case *SCall:
			if x.Fun != "allfields" || len(x.Args) != 1 {
				return nil, fmt.Errorf("%s: unsupported location", a.Text)
			}
			b, err := env.term(x.Args[0])
			if err != nil {
				return nil, fmt.Errorf("%s: %v", a.Text, err)
			}
			if err := ex.allFieldCells(env, b, func(hi *heapInfo, ref string) {
				ls.fieldRefs[hi.name] = append(ls.fieldRefs[hi.name], ref)
			}); err != nil {
				return nil, fmt.Errorf("%s: %v", a.Text, err)
			}
		case *SIdent:
			// a package-level variable
			if sp := vc.eng.spkgs[env.pkg]; sp != nil {
				if g, ok := sp.Members[x.Name].(*ssa.Global); ok {
					ls.globals[vc.globalHeap(g).name] = true
					continue
				}
			}
			return nil, fmt.Errorf("%s: not a location", a.Text)
		default:
			return nil, fmt.Errorf("%s: unsupported location", a.Text)
		}
	}
	return ls, nil
}

// covers: formula stating that the heap location (heap map, reference) lies in the set, or was allocated by this function.
func (ls *locSet) covers(heap string, kind int, ref string) string {
	var alts []string
	switch kind {
	case locField, locDeref:
		for _, r := range ls.fieldRefs[heap] {
			alts = append(alts, sEq(ref, r))
		}
	case locElem:
		for _, s := range ls.elemArrs[heap] {
			alts = append(alts, sEq(ref, "(sarr "+s+")"))
		}
	case locGlobal:
		if ls.globals[heap] {
			return "true"
		}
	}
	alts = append(alts, "(>= "+ref+" nextRef0)")
	return sOr(alts...)
}

// checkRead: obligation that a load stays inside the declared read footprint.
func (ex *exec) checkRead(l *Loc, what string, pos token.Pos) {
	if ex.readSet == nil || l.kind == locLocal {
		return
	}
	if l.kind == locDeref && l.heap == "" {
		return // struct loads are checked field by field
	}
	ref := l.ref
	if l.kind == locGlobal {
		ref = "0"
	}
	g := ex.readSet.covers(l.heap, l.kind, ref)
	ex.vc.oblige("reads["+strings.TrimPrefix(l.heap, "H")+":"+what+"]", "frame", ex.cur, g, "load outside the declared reads footprint", posStr(ex.vc.eng.fset, pos))
}

// readValues: the values of the locations of a reads clause in the given state (arguments of a pure application).
func (ex *exec) readValues(env *SpecEnv, locs []AssignLoc) ([]Val, error) {
	vc := ex.vc
	var out []Val
	for _, a := range locs {
		switch x := a.E.(type) {
		case *SSelect:
			v, err := env.term(a.E)
			if err != nil {
				return nil, fmt.Errorf("%s: %v", a.Text, err)
			}
			out = append(out, v)
		case *SIndex:
			b, err := env.term(x.X)
			if err != nil {
				return nil, fmt.Errorf("%s: %v", a.Text, err)
			}
			if b.S == SSlice {
				hi := vc.elemHeap(b.Typ.Underlying().(*types.Slice).Elem())
				out = append(out, b)
				out = append(out, Val{T: "(select " + vc.heapGet(env.cur, hi) + " (sarr " + b.T + "))", S: "(Array Int " + hi.valSort + ")"})
			} else if m, ok := b.Typ.Underlying().(*types.Map); ok {
				has, val := vc.mapHeaps(m)
				out = append(out, Val{T: "(select " + vc.heapGet(env.cur, has) + " " + b.T + ")", S: "(Array " + has.keySort + " Bool)"})
				out = append(out, Val{T: "(select " + vc.heapGet(env.cur, val) + " " + b.T + ")", S: "(Array " + val.keySort + " " + val.valSort + ")"})
			}
		case *SIdent:
			if sp := vc.eng.spkgs[env.pkg]; sp != nil {
				if g, ok := sp.Members[x.Name].(*ssa.Global); ok {
					hi := vc.globalHeap(g)
					out = append(out, Val{T: vc.heapGet(env.cur, hi), S: hi.sort})
				}
			}
		}
	}
	return out, nil
}

// pureTerm: application term for result i of a pure callee; precise when the contract declares its reads.
func (ex *exec) pureTerm(fc *FuncContract, key string, names []string, args []Val, st *State, rs *readSet, i int, sort string) string {
	vc := ex.vc
	if fc != nil && fc.HasReads {
		env := &SpecEnv{ex: ex, vc: vc, cur: st, old: st, vars: map[string]Val{}, pkg: fc.Pkg}
		for k, n := range names {
			if k < len(args) {
				env.vars[n] = args[k]
			}
		}
		vals, err := ex.readValues(env, fc.Reads)
		if err != nil {
			ex.bail("reads of %s: %v", key, err)
		}
		all := append(append([]Val{}, args...), vals...)
		var sorts, terms []string
		for _, a := range all {
			sorts = append(sorts, a.S)
			terms = append(terms, a.T)
		}
		name := "pf_" + sanitize(key)
		if i > 0 {
			name += "_" + string(rune('0'+i))
		}
		vc.declFun(name, sorts, sort)
		return sApp(name, terms...)
	}
	return vc.pureApp(key, rs, args, st, i, sort)
}

// allFieldCells enumerates every scalar field cell of the struct base points to (nested value structs included).
func (ex *exec) allFieldCells(env *SpecEnv, base Val, f func(hi *heapInfo, ref string)) error {
	vc := ex.vc
	st, _, isPtr := env.structOf(base.Typ)
	if st == nil || !isPtr {
		return fmt.Errorf(".* on a non-pointer-to-struct")
	}
	var walk func(t types.Type, ref string)
	walk = func(t types.Type, ref string) {
		sty := t.Underlying().(*types.Struct)
		for i := 0; i < sty.NumFields(); i++ {
			ft := sty.Field(i).Type()
			if _, nested := ft.Underlying().(*types.Struct); nested {
				walk(ft, vc.interiorRef(t, i, ref))
				continue
			}
			f(vc.fieldHeap(t, i), ref)
		}
	}
	walk(st, base.T)
	return nil
}
