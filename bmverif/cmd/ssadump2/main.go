package main

import (
	"go/types"
	"fmt"
	"os"

	"golang.org/x/tools/go/packages"
	"golang.org/x/tools/go/ssa"
	"golang.org/x/tools/go/ssa/ssautil"
)

func main() {
	cfg := &packages.Config{Mode: packages.LoadAllSyntax, Dir: "/repo", BuildFlags: []string{"-tags=verif"}}
	pkgs, err := packages.Load(cfg, os.Args[1])
	if err != nil {
		panic(err)
	}
	prog, spkgs := ssautil.AllPackages(pkgs, ssa.NaiveForm|ssa.GlobalDebug)
	prog.Build()
	p := spkgs[0]
	for _, name := range os.Args[2:] {
		// name: Type.Method or Func
		var fn *ssa.Function
		for i := 0; i < len(name); i++ {
			if name[i] == '.' {
				t := p.Type(name[:i])
				ms := prog.MethodSets.MethodSet(t.Type())
				sel := ms.Lookup(p.Pkg, name[i+1:])
				if sel == nil {
					ms = prog.MethodSets.MethodSet(types_ptr(t))
					sel = ms.Lookup(p.Pkg, name[i+1:])
				}
				fn = prog.MethodValue(sel)
			}
		}
		if fn == nil {
			fn = p.Func(name)
		}
		fn.WriteTo(os.Stdout)
		fmt.Println()
	}
}

func types_ptr(t *ssa.Type) types.Type { return types.NewPointer(t.Type()) }
