package main

// Replay of counterexamples on the real code: a generated in-package test is injected with `go test -overlay`
// (nothing is written into /repo) and its verdict is parsed from the output.

import (
	"encoding/json"
	"fmt"
	"os"
	osexec "os/exec"
	"path/filepath"
	"regexp"
	"strconv"
	"strings"
	"time"
)

// runOverlayTest runs test function testName of the generated file src inside package dir pkgRel of /repo.
func runOverlayTest(repo, pkgRel, testName, src string, timeout time.Duration) (string, error) {
	scratch := scratchDir()
	defer os.RemoveAll(scratch)
	file := filepath.Join(scratch, "zz_verif_replay_test.go")
	if err := os.WriteFile(file, []byte(src), 0o644); err != nil {
		return "", err
	}
	ov := map[string]map[string]string{"Replace": {filepath.Join(repo, pkgRel, "zz_verif_replay_test.go"): file}}
	ovb, _ := json.Marshal(ov)
	ovf := filepath.Join(scratch, "ov.json")
	os.WriteFile(ovf, ovb, 0o644)
	cmd := osexec.Command("go", "test", "-overlay", ovf, "-vet=off", "-count=1", "-timeout", fmt.Sprintf("%ds", int(timeout.Seconds())), "-run", "^"+testName+"$", "-v", "./"+pkgRel)
	cmd.Dir = repo
	cmd.Env = append(os.Environ(), "GOFLAGS=-mod=mod", "GOPROXY=off", "GOSUMDB=off", "GOTOOLCHAIN=local")
	out, err := cmd.CombinedOutput()
	return string(out), err
}

var witnessRe = regexp.MustCompile(`\(\(w "((?:[^"]|"")*)"\)\)`)

func decodeSMTString(s string) string {
	s = strings.ReplaceAll(s, `""`, `"`)
	re := regexp.MustCompile(`\\u\{([0-9a-fA-F]+)\}|\\u([0-9a-fA-F]{4})`)
	return re.ReplaceAllStringFunc(s, func(m string) string {
		h := strings.Trim(strings.TrimPrefix(m, `\u`), "{}")
		v, err := strconv.ParseInt(h, 16, 32)
		if err != nil {
			return m
		}
		return string(rune(v))
	})
}

func init() {
	replayers["C08"] = replayC08
}

// replayC08: a string accepted by two matcher patterns is fed to the real regexp engine and to both importers.
func replayC08(c *checkRun, obls []*Obligation) *replayResult {
	o := obls[0]
	if !strings.Contains(o.Name, "#lemma[matchers_disjoint:") {
		return nil
	}
	m := witnessRe.FindStringSubmatch(o.Model)
	if m == nil {
		m = witnessRe.FindStringSubmatch(o.Output)
	}
	if m == nil {
		return &replayResult{Note: "solver gave no witness string"}
	}
	w := decodeSMTString(m[1])
	body := strings.TrimSuffix(strings.SplitN(o.Name, "#lemma[matchers_disjoint:", 2)[1], "]")
	var p1, p2 string
	for _, a := range c.matchers {
		for _, b := range c.matchers {
			if a.pattern+"|"+b.pattern == body {
				p1, p2 = a.pattern, b.pattern
			}
		}
	}
	if p1 == "" {
		return &replayResult{Note: "patterns not found"}
	}
	src := fmt.Sprintf(`package bmnumbers

import (
	"fmt"
	"regexp"
	"testing"
)

func TestVerifReplay(t *testing.T) {
	w := %q
	p1, p2 := %q, %q
	r1, r2 := regexp.MustCompile(p1), regexp.MustCompile(p2)
	m1, m2 := r1.MatchString(w), r2.MatchString(w)
	fmt.Printf("REPLAY match1=%%t match2=%%t\n", m1, m2)
	if m1 && m2 {
		n1, e1 := AllMatchers[p1](r1, w)
		n2, e2 := AllMatchers[p2](r2, w)
		d1, d2 := "error", "error"
		if e1 == nil {
			v, _ := n1.ExportUint64()
			d1 = fmt.Sprintf("value=%%d bits=%%d type=%%s", v, n1.bits, n1.nType.GetName())
		}
		if e2 == nil {
			v, _ := n2.ExportUint64()
			d2 = fmt.Sprintf("value=%%d bits=%%d type=%%s", v, n2.bits, n2.nType.GetName())
		}
		fmt.Printf("REPLAY importer1: %%s | importer2: %%s\n", d1, d2)
		fmt.Println("REPLAY CONFIRMED")
	}
}
`, w, p1, p2)
	out, _ := runOverlayTest(c.repo, "pkg/bmnumbers", "TestVerifReplay", src, 60*time.Second)
	rr := &replayResult{Input: fmt.Sprintf("literal %q against patterns %q and %q", w, p1, p2)}
	var lines []string
	for _, l := range strings.Split(out, "\n") {
		if strings.HasPrefix(l, "REPLAY") {
			lines = append(lines, l)
		}
	}
	rr.Observed = strings.Join(lines, "; ")
	rr.Confirmed = strings.Contains(out, "REPLAY CONFIRMED")
	if !rr.Confirmed {
		rr.Note = truncateOut(out, 800)
	}
	return rr
}

// cmdReplay re-runs the replay recorded in a replay file (./check --replay <path>).
func cmdReplay(args []string) {
	if len(args) < 1 {
		fmt.Fprintln(os.Stderr, "usage: bmverif replay <path>")
		exit(2)
	}
	data, err := os.ReadFile(args[0])
	if err != nil {
		fmt.Fprintln(os.Stderr, err)
		exit(2)
	}
	var doc map[string]interface{}
	if err := json.Unmarshal(data, &doc); err != nil {
		fmt.Fprintln(os.Stderr, err)
		exit(2)
	}
	fmt.Printf("property %v\nobligation %v\nreason %v\n", doc["property"], doc["obligation"], doc["reason"])
	if r, ok := doc["replay"].(map[string]interface{}); ok {
		fmt.Printf("input: %v\nobserved: %v\nconfirmed: %v\n", r["input"], r["observed"], r["confirmed"])
	} else {
		fmt.Println("no failing input recorded (no-failing-input-found); the SMT query is at", doc["smt_query"])
	}
	// re-run the property check so that the replay reflects the current tree
	if p, ok := doc["property"].(string); ok {
		fmt.Println("re-running the check of property", p)
		cmdCheck([]string{"-prop", p})
	}
}

// c14Canary replays the circuit of finding F3 (repaired; the entry in known_findings.json is 'fixed' and suppresses
// nothing, so a recurrence is a violation with this circuit as the failing input) on the real compiler: two two-qubit gates in one layer on
// interleaved qubits (cx a c ; cx b d on a:b:c:d). When the compiled matrix equals the one of the adjacent circuit
// (cx a b ; cx c d) the defect is still present. This is a replay of a recorded failing input, not a proof.
func c14Canary(c *checkRun) {
	src := `package bmqsim

import (
	"fmt"
	"testing"

	"github.com/BondMachineHQ/BondMachine/pkg/bmline"
	"github.com/BondMachineHQ/BondMachine/pkg/bmmatrix"
)

func compileLayer(t *testing.T, lines []string) *bmmatrix.BmMatrixSquareComplex {
	sim := new(BmQSimulator)
	sim.BmQSimulatorInit()
	for i, q := range []string{"a", "b", "c", "d"} {
		sim.qbits = append(sim.qbits, q)
		sim.qbitsNum[q] = i
	}
	var ops []*bmline.BasmLine
	for _, l := range lines {
		bl, err := bmline.Text2BasmLine(l)
		if err != nil {
			t.Fatal(err)
		}
		ops = append(ops, bl)
	}
	m, err := sim.BmMatrixFromOperation(ops)
	if err != nil {
		t.Fatal(err)
	}
	return m
}

func TestVerifReplay(t *testing.T) {
	m1 := compileLayer(t, []string{"cx::a::c", "cx::b::d"})
	m2 := compileLayer(t, []string{"cx::a::b", "cx::c::d"})
	same := m1.N == m2.N
	for i := 0; same && i < m1.N; i++ {
		for j := 0; j < m1.N; j++ {
			if m1.Data[i][j] != m2.Data[i][j] {
				same = false
			}
		}
	}
	fmt.Printf("REPLAY interleaved_equals_adjacent=%t n=%d\n", same, m1.N)
}
`
	out, _ := runOverlayTest(c.repo, "pkg/bmqsim", "TestVerifReplay", src, 60*time.Second)
	if strings.Contains(out, "REPLAY interleaved_equals_adjacent=true") {
		name := "bmqsim.BmQSimulator.BmMatrixFromOperation#replay[interleaved_two_qubit_gates]"
		c.canaries = append(c.canaries, name)
		if c.canaryReplay == nil {
			c.canaryReplay = map[string]*replayResult{}
		}
		c.canaryReplay[name] = &replayResult{Confirmed: true,
			Input:    "qubits a:b:c:d, one layer: cx a c ; cx b d (compared with the layer cx a b ; cx c d)",
			Observed: "BmMatrixFromOperation returns the same 16x16 matrix for both layers (overlay test in pkg/bmqsim on the real code)"}
	} else if !strings.Contains(out, "REPLAY interleaved_equals_adjacent=false") {
		c.warnings = append(c.warnings, "C14 canary replay did not run: "+truncateOut(out, 300))
	}
}

// c14Bounded: swaps2baseSwaps is 64-bit bit manipulation over a map (outside the engine's integer model), so it is
// checked exhaustively up to a stated bound instead of being proved: for every n <= 8 and every pair of distinct qubit
// positions the emitted list of basis-state swaps must be exactly the bit transposition (each state whose two bits
// differ exchanged with its partner once, no other state touched). BOUNDED, not a proof; never counted as one.
func c14Bounded(c *checkRun) {
	src := `package bmqsim

import (
	"fmt"
	"testing"
)

func TestVerifBounded(t *testing.T) {
	for n := 1; n <= 8; n++ {
		for s1 := 0; s1 < n; s1++ {
			for s2 := 0; s2 < n; s2++ {
				if s1 == s2 {
					continue
				}
				dim := 1 << n
				perm := make([]int, dim)
				for i := range perm {
					perm[i] = i
				}
				touched := make([]int, dim)
				for _, bs := range swaps2baseSwaps(swap{s1, s2}, n) {
					if bs.s1 < 0 || bs.s1 >= dim || bs.s2 < 0 || bs.s2 >= dim {
						fmt.Printf("BOUNDED FAIL n=%d s1=%d s2=%d: swap (%d,%d) out of range\n", n, s1, s2, bs.s1, bs.s2)
						return
					}
					perm[bs.s1], perm[bs.s2] = perm[bs.s2], perm[bs.s1]
					touched[bs.s1]++
					touched[bs.s2]++
				}
				m1, m2 := 1<<(n-1-s1), 1<<(n-1-s2)
				for i := 0; i < dim; i++ {
					want := i
					if (i&m1 != 0) != (i&m2 != 0) {
						want = i ^ m1 ^ m2
					}
					if perm[i] != want || touched[i] > 1 {
						fmt.Printf("BOUNDED FAIL n=%d s1=%d s2=%d: basis state %d ends at %d (want %d), touched %d times\n", n, s1, s2, i, perm[i], want, touched[i])
						return
					}
				}
			}
		}
	}
	fmt.Println("BOUNDED OK")
}
`
	out, _ := runOverlayTest(c.repo, "pkg/bmqsim", "TestVerifBounded", src, 120*time.Second)
	item := "bmqsim.swaps2baseSwaps: exhaustive for n <= 8 qubits and every ordered pair of distinct positions (1..8 x 56 pairs): the emitted swaps are exactly the bit transposition on basis states [BOUNDED, not a proof]"
	switch {
	case strings.Contains(out, "BOUNDED OK"):
		c.bounded = append(c.bounded, item)
	case strings.Contains(out, "BOUNDED FAIL"):
		line := ""
		for _, l := range strings.Split(out, "\n") {
			if strings.HasPrefix(l, "BOUNDED FAIL") {
				line = l
			}
		}
		name := "bmqsim.swaps2baseSwaps#bounded[bit_transposition]"
		c.canaries = append(c.canaries, name)
		if c.canaryReplay == nil {
			c.canaryReplay = map[string]*replayResult{}
		}
		c.canaryReplay[name] = &replayResult{Confirmed: true, Input: strings.TrimPrefix(line, "BOUNDED FAIL "), Observed: "swaps2baseSwaps on the real code (overlay test in pkg/bmqsim) does not emit the bit transposition"}
	default:
		c.warnings = append(c.warnings, "C14 bounded check did not run: "+truncateOut(out, 300))
	}
}

// c04Canary replays a recorded failing history of property C04 on the real simulator: a producer that sends three
// values with three r2owa instructions in a row to one consumer. Exactly-once, in-order delivery over histories is
// not decided by the per-step contracts (it is a whole-history protocol property); this history was found while
// confirming seeded changes and shows that the simulator's handshake loses a value: the second r2owa completes on the
// stale acknowledge of the first transfer, before the consumer has dropped its received line. A replay of one
// history on the real code - not a proof, and not counted among the obligations.
func c04Canary(c *checkRun) {
	src := `package bondmachine

import (
	"fmt"
	"testing"

	"github.com/BondMachineHQ/BondMachine/pkg/procbuilder"
	"github.com/BondMachineHQ/BondMachine/pkg/simbox"
)

func verifReplayMachine(t *testing.T, prog string) *procbuilder.Machine {
	mach := new(procbuilder.Machine)
	mach.Arch.Modes = []string{"ha"}
	mach.Arch.Rsize = 8
	mach.Arch.R = 2
	mach.Arch.N = 1
	mach.Arch.M = 1
	mach.Arch.O = 5
	mach.Arch.L = 1
	mach.Arch.Op = []procbuilder.Opcode{procbuilder.I2rw{}, procbuilder.Inc{}, procbuilder.Nop{}, procbuilder.R2owa{}}
	p, err := mach.Arch.Assembler([]byte(prog))
	if err != nil {
		t.Fatal(err)
	}
	mach.Program = p
	return mach
}

func TestVerifReplay(t *testing.T) {
	prod := verifReplayMachine(t, "inc r0\ninc r1\ninc r1\ninc r2\ninc r2\ninc r2\nr2owa r0 o0\nr2owa r1 o0\nr2owa r2 o0\nnop\n")
	cons := verifReplayMachine(t, "i2rw r0 i0\ni2rw r1 i0\ni2rw r2 i0\nnop\n")
	bm := new(Bondmachine)
	bm.Rsize = 8
	bm.Domains = []*procbuilder.Machine{prod, cons}
	bm.Add_processor(0)
	bm.Add_processor(1)
	bm.Add_bond([]string{"p1i0", "p0o0"})
	bm.Init()
	vm := new(VM)
	vm.Bmach = bm
	if err := vm.Init(); err != nil {
		t.Fatal(err)
	}
	if err := vm.Launch_processors(&simbox.Simbox{}); err != nil {
		t.Fatal(err)
	}
	for tick := 0; tick < 100; tick++ {
		if _, err := vm.Step(nil); err != nil {
			t.Fatal(err)
		}
	}
	r := vm.Processors[1].Registers
	ok := vm.Processors[1].Pc >= 3 && r[0] == uint8(1) && r[1] == uint8(2) && r[2] == uint8(3)
	fmt.Printf("REPLAY delivered_in_order_exactly_once=%t received=%v,%v,%v consumer_pc=%d producer_pc=%d\n", ok, r[0], r[1], r[2], vm.Processors[1].Pc, vm.Processors[0].Pc)
}
`
	out, _ := runOverlayTest(c.repo, "pkg/bondmachine", "TestVerifReplay", src, 120*time.Second)
	switch {
	case strings.Contains(out, "REPLAY delivered_in_order_exactly_once=false"):
		name := "bondmachine.VM.Step#replay[back_to_back_r2owa]"
		c.canaries = append(c.canaries, name)
		line := ""
		for _, l := range strings.Split(out, "\n") {
			if strings.HasPrefix(l, "REPLAY") {
				line = l
			}
		}
		if c.canaryReplay == nil {
			c.canaryReplay = map[string]*replayResult{}
		}
		c.canaryReplay[name] = &replayResult{Confirmed: true,
			Input:    "two processors joined by one bond; producer: r2owa r0 o0 ; r2owa r1 o0 ; r2owa r2 o0 with r0=1, r1=2, r2=3; consumer: i2rw r0 i0 ; i2rw r1 i0 ; i2rw r2 i0; 100 ticks",
			Observed: strings.TrimPrefix(line, "REPLAY ")}
	case strings.Contains(out, "REPLAY delivered_in_order_exactly_once=true"):
	default:
		c.warnings = append(c.warnings, "C04 canary replay did not run: "+truncateOut(out, 300))
	}
}
