package main

// Calls (modular: by contract), builtins, frame conditions.

import (
	"fmt"
	"go/ast"
	"go/token"
	"go/types"
	"strings"

	"golang.org/x/tools/go/ssa"
)

func bodyLbrace(li *loopInfo) token.Pos {
	switch n := li.astNode.(type) {
	case *ast.ForStmt:
		return n.Body.Lbrace
	case *ast.RangeStmt:
		return n.Body.Lbrace
	}
	return li.astNode.Pos()
}

// effect-free external functions whose results are modelled as uninterpreted functions of their arguments
var pureExterns = map[string]bool{
	"strconv.Itoa": true, "strconv.Atoi": true, "strconv.FormatInt": true, "strconv.FormatUint": true, "strconv.ParseInt": true, "strconv.ParseUint": true,
	"strings.ToLower": true, "strings.ToUpper": true, "strings.Split": true, "strings.Fields": true, "strings.HasPrefix": true, "strings.HasSuffix": true,
	"strings.Contains": true, "strings.TrimSpace": true, "strings.Repeat": true, "strings.Join": true, "strings.Index": true, "strings.Replace": true, "strings.ReplaceAll": true,
	"strings.TrimPrefix": true, "strings.TrimSuffix": true, "strings.Trim": true, "strings.TrimLeft": true, "strings.TrimRight": true,
	"errors.New": true, "fmt.Sprintf": true, "fmt.Sprint": true, "fmt.Errorf": true, "fmt.Sprintln": true,
	"fmt.Println": true, "fmt.Printf": true, "fmt.Print": true,
	"math/bits.Len": true, "math/bits.Len64": true,
	"encoding/hex.EncodeToString": true, "encoding/hex.DecodeString": true,
	"regexp.MustCompile": true, "regexp.Regexp.ReplaceAllString": true, "regexp.Regexp.MatchString": true, "regexp.Regexp.FindStringSubmatch": true,
	"math.Float32frombits": true, "math.Float32bits": true, "math.Float64frombits": true, "math.Float64bits": true,
	"math.Abs": true, "math.Pow": true, "math.Floor": true, "math.Round": true, "math.Trunc": true, "math.Exp": true, "math.IsNaN": true, "math.IsInf": true,
	"github.com/x448/float16.Frombits": true, "github.com/x448/float16.Fromfloat32": true,
	"float16.Float16.Float32": true, "float16.Float16.Bits": true,
}

func (ex *exec) calleeContract(c *ssa.CallCommon) (*FuncContract, *ssa.Function, string) {
	eng := ex.vc.eng
	if c.IsInvoke() {
		// interface method: interface-level contract
		it := c.Value.Type()
		if n, ok := types.Unalias(it).(*types.Named); ok {
			pkgName := ""
			if n.Obj().Pkg() != nil {
				pkgName = n.Obj().Pkg().Name()
			}
			key := "iface:" + pkgName + "." + n.Obj().Name() + "." + c.Method.Name()
			if pkgName == "" {
				key = "iface:" + n.Obj().Name() + "." + c.Method.Name()
			}
			return eng.contracts[key], nil, key
		}
		return nil, nil, "iface:?." + c.Method.Name()
	}
	fn := c.StaticCallee()
	if fn == nil {
		// a value of a named function type with a functype contract
		if n, ok := types.Unalias(c.Value.Type()).(*types.Named); ok && n.Obj().Pkg() != nil {
			key := "functype:" + n.Obj().Pkg().Name() + "." + n.Obj().Name()
			return eng.contracts[key], nil, key
		}
		return nil, nil, ""
	}
	key := funcKey(fn)
	if fc := eng.contracts[key]; fc != nil {
		return fc, fn, key
	}
	// a method without its own contract inherits the contract of an interface its receiver type implements
	if fn.Signature.Recv() != nil {
		if ifc := eng.inheritedIfaceContract(fn); ifc != nil {
			return ifc, fn, key
		}
	}
	return nil, fn, key
}

func (eng *Engine) inheritedIfaceContract(fn *ssa.Function) *FuncContract {
	rt := fn.Signature.Recv().Type()
	for k, fc := range eng.contracts {
		if !strings.HasPrefix(k, "iface:") {
			continue
		}
		parts := strings.Split(strings.TrimPrefix(k, "iface:"), ".")
		if len(parts) != 3 || parts[2] != fn.Name() {
			continue
		}
		p := eng.pkgs[parts[0]]
		if p == nil {
			continue
		}
		obj := p.Types.Scope().Lookup(parts[1])
		if obj == nil {
			continue
		}
		if iface, ok := obj.Type().Underlying().(*types.Interface); ok {
			if types.Implements(rt, iface) || types.Implements(types.NewPointer(rt), iface) {
				return fc
			}
		}
	}
	return nil
}

// callModifies: heap maps a call may modify (for loop havoc sets).
func (ex *exec) callModifies(x *ssa.Call) (names []string, all bool) {
	vc := ex.vc
	c := &x.Call
	if b, ok := c.Value.(*ssa.Builtin); ok {
		switch b.Name() {
		case "append":
			st := c.Args[0].Type().Underlying().(*types.Slice)
			return []string{vc.elemHeap(st.Elem()).name}, false
		case "copy":
			if st, ok := c.Args[0].Type().Underlying().(*types.Slice); ok {
				return []string{vc.elemHeap(st.Elem()).name}, false
			}
		case "delete":
			mt := c.Args[0].Type().Underlying().(*types.Map)
			has, _ := vc.mapHeaps(mt)
			return []string{has.name}, false
		}
		return nil, false
	}
	fc, fn, key := ex.calleeContract(c)
	if fc == nil {
		if fn != nil && pureExterns[key] {
			return nil, false
		}
		return nil, true
	}
	if fc.Pure {
		return nil, false
	}
	if !fc.HasAssigns {
		return nil, true
	}
	// heap names from the assigns clause, by type only (over-approximation)
	for _, a := range fc.Assigns {
		ns, err := ex.assignHeapNames(fc, fn, c, a)
		if err != nil {
			return nil, true
		}
		names = append(names, ns...)
	}
	for _, ge := range fc.GhostExits {
		_ = ge
		// ghost heaps are resolved when the contract is applied; conservatively handled by name below
	}
	names = append(names, ex.ghostExitHeapNames(fc, fn, c)...)
	return names, false
}

func (ex *exec) ghostExitHeapNames(fc *FuncContract, fn *ssa.Function, c *ssa.CallCommon) []string {
	var out []string
	for _, ge := range fc.GhostExits {
		sel, ok := ge.Target.(*SSelect)
		if !ok {
			continue
		}
		t := ex.specStaticType(fc, fn, c, sel.X)
		if t == nil {
			continue
		}
		if p, ok := t.Underlying().(*types.Pointer); ok {
			if n, ok := types.Unalias(p.Elem()).(*types.Named); ok {
				if g := ex.vc.eng.ghosts[n.Obj().Name()+"."+sel.Sel]; g != nil {
					if hi, err := ex.vc.ghostHeap(p.Elem(), g); err == nil {
						out = append(out, hi.name)
					}
				}
			}
		}
	}
	return out
}

// specStaticType: static Go type of a simple location expression in a contract (param.field.field...).
func (ex *exec) specStaticType(fc *FuncContract, fn *ssa.Function, c *ssa.CallCommon, e SExpr) types.Type {
	switch x := e.(type) {
	case *SIdent:
		names, typs := calleeParamInfo(fc, fn, c)
		for i, n := range names {
			if n == x.Name && i < len(typs) {
				return typs[i]
			}
		}
		if sp := ex.vc.eng.spkgs[fc.Pkg]; sp != nil {
			if g, ok := sp.Members[x.Name].(*ssa.Global); ok {
				return g.Type().(*types.Pointer).Elem()
			}
		}
	case *SSelect:
		bt := ex.specStaticType(fc, fn, c, x.X)
		if bt == nil {
			return nil
		}
		obj, _, _ := types.LookupFieldOrMethod(bt, true, nil, x.Sel)
		if obj == nil {
			if p, ok := bt.Underlying().(*types.Pointer); ok {
				if n, ok := types.Unalias(p.Elem()).(*types.Named); ok && n.Obj().Pkg() != nil {
					obj, _, _ = types.LookupFieldOrMethod(bt, true, n.Obj().Pkg(), x.Sel)
				}
			}
		}
		if v, ok := obj.(*types.Var); ok {
			return v.Type()
		}
	case *SIndex:
		bt := ex.specStaticType(fc, fn, c, x.X)
		if bt == nil {
			return nil
		}
		switch u := bt.Underlying().(type) {
		case *types.Slice:
			return u.Elem()
		case *types.Map:
			return u.Elem()
		case *types.Array:
			return u.Elem()
		}
	}
	return nil
}

func calleeParamInfo(fc *FuncContract, fn *ssa.Function, c *ssa.CallCommon) ([]string, []types.Type) {
	var names []string
	var typs []types.Type
	if fn != nil && len(fn.Params) > 0 {
		for _, p := range fn.Params {
			names = append(names, p.Name())
			typs = append(typs, p.Type())
		}
		return names, typs
	}
	sig := c.Signature()
	if strings.HasPrefix(fc.Key, "functype:") {
		for i := 0; i < sig.Params().Len(); i++ {
			n := sig.Params().At(i).Name()
			if i < len(fc.ParamNames) {
				n = fc.ParamNames[i]
			}
			names = append(names, n)
			typs = append(typs, sig.Params().At(i).Type())
		}
		return names, typs
	}
	if c.IsInvoke() {
		names = append(names, fc.RecvName)
		typs = append(typs, c.Value.Type())
	} else if sig.Recv() != nil {
		names = append(names, fc.RecvName)
		typs = append(typs, sig.Recv().Type())
	}
	for i := 0; i < sig.Params().Len(); i++ {
		n := sig.Params().At(i).Name()
		if i < len(fc.ParamNames) {
			n = fc.ParamNames[i]
		}
		names = append(names, n)
		typs = append(typs, sig.Params().At(i).Type())
	}
	return names, typs
}

// assignHeapNames: heap maps touched by one assigns location (type-directed).
func (ex *exec) assignHeapNames(fc *FuncContract, fn *ssa.Function, c *ssa.CallCommon, a AssignLoc) ([]string, error) {
	vc := ex.vc
	if id, ok := a.E.(*SIdent); ok {
		if sp := vc.eng.spkgs[fc.Pkg]; sp != nil {
			if g, ok := sp.Members[id.Name].(*ssa.Global); ok {
				return []string{vc.globalHeap(g).name}, nil
			}
		}
	}
	switch x := a.E.(type) {
	case *SSelect:
		bt := ex.specStaticType(fc, fn, c, x.X)
		if bt == nil {
			return nil, fmt.Errorf("cannot type %s", a.Text)
		}
		p, ok := bt.Underlying().(*types.Pointer)
		if !ok {
			return nil, fmt.Errorf("assigns through non-pointer %s", a.Text)
		}
		obj, path, _ := types.LookupFieldOrMethod(bt, true, nil, x.Sel)
		if obj == nil {
			if n, ok := types.Unalias(p.Elem()).(*types.Named); ok {
				if g := vc.eng.ghosts[n.Obj().Name()+"."+x.Sel]; g != nil {
					hi, err := vc.ghostHeap(p.Elem(), g)
					if err != nil {
						return nil, err
					}
					return []string{hi.name}, nil
				}
			}
			return nil, fmt.Errorf("no field %s", x.Sel)
		}
		cur := p.Elem()
		for i, idx := range path {
			st := cur.Underlying().(*types.Struct)
			if i == len(path)-1 {
				return []string{vc.fieldHeap(cur, idx).name}, nil
			}
			cur = st.Field(idx).Type()
			if pp, ok := cur.Underlying().(*types.Pointer); ok {
				cur = pp.Elem()
			}
		}
	case *SCall:
		if x.Fun == "allfields" && len(x.Args) == 1 {
			bt := ex.specStaticType(fc, fn, c, x.Args[0])
			if bt == nil {
				return nil, fmt.Errorf("cannot type %s", a.Text)
			}
			p, ok := bt.Underlying().(*types.Pointer)
			if !ok {
				return nil, fmt.Errorf(".* through non-pointer")
			}
			var names []string
			var walk func(t types.Type)
			walk = func(t types.Type) {
				sty, ok := t.Underlying().(*types.Struct)
				if !ok {
					return
				}
				for i := 0; i < sty.NumFields(); i++ {
					if _, nested := sty.Field(i).Type().Underlying().(*types.Struct); nested {
						walk(sty.Field(i).Type())
					} else {
						names = append(names, vc.fieldHeap(t, i).name)
					}
				}
			}
			walk(p.Elem())
			return names, nil
		}
		if x.Fun == "spare" && len(x.Args) == 1 {
			bt := ex.specStaticType(fc, fn, c, x.Args[0])
			if sl, ok := bt.Underlying().(*types.Slice); ok && bt != nil {
				return []string{vc.elemHeap(sl.Elem()).name}, nil
			}
		}
	case *SIndex:
		bt := ex.specStaticType(fc, fn, c, x.X)
		if bt == nil {
			return nil, fmt.Errorf("cannot type %s", a.Text)
		}
		switch u := bt.Underlying().(type) {
		case *types.Slice:
			return []string{vc.elemHeap(u.Elem()).name}, nil
		case *types.Map:
			has, val := vc.mapHeaps(u)
			return []string{has.name, val.name}, nil
		}
	}
	return nil, fmt.Errorf("unsupported assigns location %s", a.Text)
}

// ---------------------------------------------------------------------------

func (ex *exec) call(st *State, x *ssa.Call) {
	vc := ex.vc
	c := &x.Call
	if b, ok := c.Value.(*ssa.Builtin); ok {
		ex.builtin(st, x, b)
		return
	}
	var args []Val
	if c.IsInvoke() {
		args = append(args, ex.val(c.Value))
	}
	for _, a := range c.Args {
		if l, ok := vc.locs[a]; ok {
			if _, isVal := vc.vals[a]; !isVal {
				args = append(args, Val{T: ex.locToRef(l), S: SInt, Typ: a.Type()})
				continue
			}
		}
		args = append(args, ex.val(a))
	}
	fc, fn, key := ex.calleeContract(c)
	res := c.Signature().Results()
	pos := posStr(vc.eng.fset, x.Pos())
	if fc == nil {
		ex.callNoContract(st, x, fn, key, args)
		return
	}
	if fc.Extern || fc.Trusted {
		vc.eng.noteAssumption("assumed contract: " + key)
	}
	names, _ := calleeParamInfo(fc, fn, c)
	if len(names) != len(args) {
		ex.bail("call %s: %d parameter names for %d arguments", key, len(names), len(args))
	}
	pkg := fc.Pkg
	mkEnv := func(cur, old *State) *SpecEnv {
		env := &SpecEnv{ex: ex, vc: vc, cur: cur, old: old, vars: map[string]Val{}, pkg: pkg}
		for i, n := range names {
			env.vars[n] = args[i]
		}
		for i := 0; i < res.Len(); i++ {
			env.resNames = append(env.resNames, res.At(i).Name())
		}
		return env
	}
	short := key
	if i := strings.LastIndex(short, "/"); i >= 0 {
		short = short[i+1:]
	}
	// preconditions
	pre := st.clone()
	env := mkEnv(pre, pre)
	for i, cl := range fc.Requires {
		parts, err := env.splitGoal(cl.E, clauseName(cl, i))
		if err != nil {
			ex.bail("call %s requires (line %d): %v", key, cl.Line, err)
		}
		for _, p := range parts {
			vc.oblige(fmt.Sprintf("call[%s].pre[%s]", short, p.name), "pre", ex.cur, p.t, cl.Text, pos)
			vc.assume(ex.cur, p.t)
		}
	}
	// the callee's read footprint must lie inside ours
	if ex.readSet != nil && !fc.Trusted {
		if fc.HasReads {
			cls, err := ex.evalLocSet(env, fc.Reads)
			if err != nil {
				ex.bail("call %s reads: %v", key, err)
			}
			for _, h := range sortedKeys(cls.fieldRefs) {
				for _, r := range cls.fieldRefs[h] {
					vc.oblige(fmt.Sprintf("call[%s].reads[%s]", short, strings.TrimPrefix(h, "H")), "frame", ex.cur, ex.readSet.covers(h, locField, r), "callee reads outside the declared reads footprint", pos)
				}
			}
			for _, h := range sortedKeys(cls.elemArrs) {
				for _, sl := range cls.elemArrs[h] {
					vc.oblige(fmt.Sprintf("call[%s].reads[%s]", short, strings.TrimPrefix(h, "H")), "frame", ex.cur, sOr(sEq("(slen "+sl+")", "0"), ex.readSet.covers(h, locElem, "(sarr "+sl+")")), "callee reads outside the declared reads footprint", pos)
				}
			}
			for h := range cls.globals {
				vc.oblige(fmt.Sprintf("call[%s].reads[%s]", short, strings.TrimPrefix(h, "H")), "frame", ex.cur, ex.readSet.covers(h, locGlobal, "0"), "callee reads a global outside the declared reads footprint", pos)
			}
		} else {
			var crs *readSet
			if c.IsInvoke() {
				crs = vc.eng.ifaceReads(c.Value.Type(), c.Method)
			} else if fn != nil {
				crs = vc.eng.readsOf(fn)
			}
			if crs == nil || crs.unknown != "" || len(crs.names) > 0 {
				why := "callee has no reads clause"
				if crs != nil && crs.unknown != "" {
					why += " (" + crs.unknown + ")"
				}
				vc.oblige(fmt.Sprintf("call[%s].reads[undeclared]", short), "frame", ex.cur, "false", why, pos)
			}
		}
	}
	// effects
	if fc.Pure {
		// a pure function may still allocate what it returns
		nr := vc.freshConst("nextRef", "Int")
		vc.assume("true", "(>= "+nr+" "+st.nextRef+")")
		st.nextRef = nr
	}
	if !fc.Pure {
		if !fc.HasAssigns {
			vc.havocAllHeap(st)
		} else {
			nr := vc.freshConst("nextRef", "Int")
			vc.assume("true", "(>= "+nr+" "+st.nextRef+")")
			st.nextRef = nr
			for _, a := range fc.Assigns {
				if err := ex.havocAssign(st, pre, env, a); err != nil {
					ex.bail("call %s assigns %s: %v", key, a.Text, err)
				}
			}
		}
	}
	// results
	var results []Val
	var rs *readSet
	if fc.Pure {
		if c.IsInvoke() {
			rs = vc.eng.ifaceReads(c.Value.Type(), c.Method)
		} else if fn != nil {
			rs = vc.eng.readsOf(fn)
		}
	}
	for i := 0; i < res.Len(); i++ {
		rt := res.At(i).Type()
		if fc.Pure && vc.sorts.sortOf(rt) != SSlice {
			t := ex.pureTerm(fc, key, names, args, pre, rs, i, vc.sorts.sortOf(rt))
			t = vc.define("r_"+shortName(key), vc.sorts.sortOf(rt), t)
			vc.assume(ex.cur, vc.sorts.typeInv(rt, t, st.nextRef))
			results = append(results, Val{T: t, S: vc.sorts.sortOf(rt), Typ: rt})
			continue
		}
		n := vc.freshConst("r_"+shortName(key), vc.sorts.sortOf(rt))
		vc.assume("true", vc.sorts.typeInv(rt, n, st.nextRef))
		results = append(results, Val{T: n, S: vc.sorts.sortOf(rt), Typ: rt})
	}
	if (ex.useEval || fc.mentionsEval()) && !fc.Pure {
		// (also when only the callee's contract speaks about the counts: its postcondition relates the count after
		// the call to the count before it, so the two must be different versions)
		f := ""
		if strings.HasPrefix(key, "functype:") && fc.HasAssigns {
			f = ex.val(c.Value).T
		}
		for _, eh := range vc.evalHeaps() {
			before := vc.heapGet(pre, eh)
			if f == "" {
				// any other impure callee may call function values itself: the counts can only grow
				after := vc.heapHavoc(st, eh)
				vc.addLine("(assert (forall ((f! Int)) (! (>= (select " + after + " f!) (select " + before + " f!)) :pattern ((select " + after + " f!)))))")
				continue
			}
			// a call through a function value under a function-type contract: counted (and, when it returns one
			// boolean, counted by outcome as well)
			inc := "1"
			if eh.name != "HG_evalcount" {
				if len(results) != 1 || results[0].S != SBool {
					after := vc.heapHavoc(st, eh)
					vc.addLine("(assert (forall ((f! Int)) (! (>= (select " + after + " f!) (select " + before + " f!)) :pattern ((select " + after + " f!)))))")
					continue
				}
				if eh.name == "HG_evaltrue" {
					inc = "(ite " + results[0].T + " 1 0)"
				} else {
					inc = "(ite " + results[0].T + " 0 1)"
				}
			}
			vc.heapSet(st, eh, "(store "+before+" "+f+" (+ (select "+before+" "+f+") "+inc+"))")
		}
	}
	post := mkEnv(st, pre)
	post.results = results
	// ghost updates performed by the callee at its exit
	ex.applyGhostExits(post, fc, st, ex.cur)
	post = mkEnv(st, pre)
	post.results = results
	for i, cl := range fc.Ensures {
		parts, err := post.splitGoal(cl.E, clauseName(cl, i))
		if err != nil {
			ex.bail("call %s ensures (line %d): %v", key, cl.Line, err)
		}
		vc.comment("assume post of " + key + ": " + cl.Text)
		for _, p := range parts {
			vc.assume(ex.cur, p.t)
		}
	}
	ex.bindResults(x, results)
}

func shortName(key string) string {
	if i := strings.LastIndex(key, "."); i >= 0 {
		return key[i+1:]
	}
	return key
}

func (ex *exec) bindResults(x *ssa.Call, results []Val) {
	vc := ex.vc
	switch len(results) {
	case 0:
	case 1:
		vc.vals[x] = results[0]
	default:
		vc.tuples[x] = results
	}
}

// havocAssign havocs exactly the location named by an assigns entry (evaluated in the pre-state).
func (ex *exec) globalOf(env *SpecEnv, name string) *heapInfo {
	if sp := ex.vc.eng.spkgs[env.pkg]; sp != nil {
		if g, ok := sp.Members[name].(*ssa.Global); ok {
			return ex.vc.globalHeap(g)
		}
	}
	return nil
}

func (ex *exec) havocAssign(st, pre *State, env *SpecEnv, a AssignLoc) error {
	vc := ex.vc
	if id, ok := a.E.(*SIdent); ok {
		if _, isVar := env.lookupVar(id.Name); !isVar {
			if hi := ex.globalOf(env, id.Name); hi != nil {
				n := vc.freshConst("hv_"+id.Name, hi.valSort)
				vc.assume("true", vc.sorts.typeInv(hi.valType, n, st.nextRef))
				vc.heapSet(st, hi, n)
				return nil
			}
		}
	}
	switch x := a.E.(type) {
	case *SSelect:
		base, err := env.term(x.X)
		if err != nil {
			return err
		}
		hi, ref, err := ex.fieldCell(env, base, x.Sel)
		if err != nil {
			return err
		}
		n := vc.freshConst("hv_"+x.Sel, hi.valSort)
		if hi.valType != nil && hi.kind != heapGhost {
			vc.assume("true", vc.sorts.typeInv(hi.valType, n, st.nextRef))
		}
		vc.heapSet(st, hi, "(store "+vc.heapGet(st, hi)+" "+ref+" "+n+")")
		return nil
	case *SCall:
		if x.Fun == "allfields" && len(x.Args) == 1 {
			base, err := env.term(x.Args[0])
			if err != nil {
				return err
			}
			return ex.allFieldCells(env, base, func(hi *heapInfo, ref string) {
				n := vc.freshConst("hv_field", hi.valSort)
				if hi.valType != nil {
					vc.assume("true", vc.sorts.typeInv(hi.valType, n, st.nextRef))
				}
				vc.heapSet(st, hi, "(store "+vc.heapGet(st, hi)+" "+ref+" "+n+")")
			})
		}
		if x.Fun != "spare" || len(x.Args) != 1 {
			return fmt.Errorf("unsupported assigns location")
		}
		base, err := env.term(x.Args[0])
		if err != nil {
			return err
		}
		if base.S != SSlice {
			return fmt.Errorf("spare() of non-slice")
		}
		sl := base.Typ.Underlying().(*types.Slice)
		hi := vc.elemHeap(sl.Elem())
		h := vc.heapGet(st, hi)
		arr := vc.freshConst("hv_spare", "(Array Int "+hi.valSort+")")
		inv := vc.sorts.typeInv(sl.Elem(), "(select "+arr+" i!)", st.nextRef)
		old := "(select " + h + " (sarr " + base.T + "))"
		vc.addLine(fmt.Sprintf("(assert (forall ((i! Int)) (! (and %s (=> (not (and (<= (+ (soff %s) (slen %s)) i!) (< i! (+ (soff %s) (scap %s))))) (= (select %s i!) (select %s i!)))) :pattern ((select %s i!)))))",
			inv, base.T, base.T, base.T, base.T, arr, old, arr))
		vc.heapSet(st, hi, "(store "+h+" (sarr "+base.T+") "+arr+")")
		return nil
	case *SIndex:
		base, err := env.term(x.X)
		if err != nil {
			return err
		}
		if m, ok := base.Typ.Underlying().(*types.Map); ok && base.S != SSlice {
			has, val := vc.mapHeaps(m)
			for _, hi := range []*heapInfo{has, val} {
				n := vc.freshConst("hv_map", "(Array "+hi.keySort+" "+hi.valSort+")")
				vc.heapSet(st, hi, "(store "+vc.heapGet(st, hi)+" "+base.T+" "+n+")")
			}
			return nil
		}
		if base.S != SSlice {
			return fmt.Errorf("indexed assigns on non-slice")
		}
		sl := base.Typ.Underlying().(*types.Slice)
		hi := vc.elemHeap(sl.Elem())
		h := vc.heapGet(st, hi)
		if x.I == nil {
			// all elements of the slice (as it was in the pre-state): cells outside [off, off+len) keep their value
			arr := vc.freshConst("hv_elems", "(Array Int "+hi.valSort+")")
			inv := vc.sorts.typeInv(sl.Elem(), "(select "+arr+" i!)", st.nextRef)
			old := "(select " + h + " (sarr " + base.T + "))"
			vc.addLine(fmt.Sprintf("(assert (forall ((i! Int)) (! (and %s (=> (not (and (<= (soff %s) i!) (< i! (+ (soff %s) (slen %s))))) (= (select %s i!) (select %s i!)))) :pattern ((select %s i!)))))",
				inv, base.T, base.T, base.T, arr, old, arr))
			vc.heapSet(st, hi, "(store "+h+" (sarr "+base.T+") "+arr+")")
			return nil
		}
		idx, err := env.term(x.I)
		if err != nil {
			return err
		}
		n := vc.freshConst("hv_elem", hi.valSort)
		vc.assume("true", vc.sorts.typeInv(sl.Elem(), n, st.nextRef))
		vc.heapSet(st, hi, "(store "+h+" (sarr "+base.T+") (store (select "+h+" (sarr "+base.T+")) (+ (soff "+base.T+") "+idx.T+") "+n+"))")
		return nil
	}
	return fmt.Errorf("unsupported assigns location")
}

// fieldCell resolves base.name to (heap map, reference term) for a pointer-typed base.
func (ex *exec) fieldCell(env *SpecEnv, base Val, name string) (*heapInfo, string, error) {
	vc := ex.vc
	st, _, isPtr := env.structOf(base.Typ)
	if st == nil || !isPtr {
		return nil, "", fmt.Errorf("field cell %s of non-pointer", name)
	}
	obj, path, _ := types.LookupFieldOrMethod(base.Typ, true, nil, name)
	if obj == nil {
		if n, ok := types.Unalias(st).(*types.Named); ok && n.Obj().Pkg() != nil {
			obj, path, _ = types.LookupFieldOrMethod(base.Typ, true, n.Obj().Pkg(), name)
		}
	}
	if obj == nil {
		hi, err := env.ghostHeapFor(base, name)
		if err != nil {
			return nil, "", err
		}
		return hi, base.T, nil
	}
	ref := base.T
	cur := st
	for i, idx := range path {
		cst := cur.Underlying().(*types.Struct)
		ft := cst.Field(idx).Type()
		if i == len(path)-1 {
			if _, nested := ft.Underlying().(*types.Struct); nested {
				return nil, "", fmt.Errorf("assigns of a whole nested struct %s is not supported; list its fields", name)
			}
			return vc.fieldHeap(cur, idx), ref, nil
		}
		if _, nested := ft.Underlying().(*types.Struct); nested {
			ref = vc.interiorRef(cur, idx, ref)
			cur = ft
		} else if p, ok := ft.Underlying().(*types.Pointer); ok {
			hi := vc.fieldHeap(cur, idx)
			ref = "(select " + vc.heapGet(env.cur, hi) + " " + ref + ")"
			cur = p.Elem()
		} else {
			return nil, "", fmt.Errorf("bad field path")
		}
	}
	return nil, "", fmt.Errorf("empty field path")
}

func (ex *exec) callNoContract(st *State, x *ssa.Call, fn *ssa.Function, key string, args []Val) {
	vc := ex.vc
	c := &x.Call
	res := c.Signature().Results()
	var results []Val
	pure := fn != nil && pureExterns[key]
	if c.IsInvoke() && c.Method.Name() == "Error" && res.Len() == 1 {
		vc.declFun("err.msg", []string{SIface}, SStr)
		vc.vals[x] = Val{T: "(err.msg " + args[0].T + ")", S: SStr, Typ: strT}
		return
	}
	sortedInPlace := false
	if (key == "sort.Sort" || key == "sort.Stable") && len(c.Args) == 1 {
		// sort.Sort(T(slice)): the only memory the call can reach through Len/Less/Swap of a slice-backed
		// sort.Interface is the element window of that slice; it ends up holding some rearrangement (modelled as
		// arbitrary values of the element type). Assumed for every named slice type implementing sort.Interface.
		if mi, ok := c.Args[0].(*ssa.MakeInterface); ok {
			if sl, ok := mi.X.Type().Underlying().(*types.Slice); ok {
				base := ex.val(mi.X)
				hi := vc.elemHeap(sl.Elem())
				h := vc.heapGet(st, hi)
				arr := vc.freshConst("hv_sorted", "(Array Int "+hi.valSort+")")
				inv := vc.sorts.typeInv(sl.Elem(), "(select "+arr+" i!)", st.nextRef)
				old := "(select " + h + " (sarr " + base.T + "))"
				vc.addLine(fmt.Sprintf("(assert (forall ((i! Int)) (! (and %s (=> (not (and (<= (soff %s) i!) (< i! (+ (soff %s) (slen %s))))) (= (select %s i!) (select %s i!)))) :pattern ((select %s i!)))))",
					inv, base.T, base.T, base.T, arr, old, arr))
				vc.heapSet(st, hi, "(store "+h+" (sarr "+base.T+") "+arr+")")
				vc.eng.noteAssumption("sort.Sort on a slice-backed sort.Interface modelled as an arbitrary rearrangement of that slice's elements (writes nothing else)")
				sortedInPlace = true
			}
		}
	}
	if !pure && !sortedInPlace {
		what := key
		if what == "" {
			what = "dynamic call " + c.Value.Name()
		}
		vc.warnings = append(vc.warnings, "call without contract: "+what+" (heap havocked)")
		vc.havocAllHeap(st)
	}
	for i := 0; i < res.Len(); i++ {
		rt := res.At(i).Type()
		rs := vc.sorts.sortOf(rt)
		if pure && (rs == SInt || rs == SStr || rs == SBool) && len(args) > 0 && !strings.HasPrefix(key, "fmt.") && key != "errors.New" {
			var sorts, ts []string
			ok := true
			for _, a := range args {
				if a.S == SSlice {
					ok = false
				}
				sorts = append(sorts, a.S)
				ts = append(ts, a.T)
			}
			if ok {
				fname := fmt.Sprintf("ext_%s_%d", sanitize(key), i)
				vc.declFun(fname, sorts, rs)
				t := sApp(fname, ts...)
				vc.assume(ex.cur, vc.sorts.typeInv(rt, t, ""))
				results = append(results, Val{T: t, S: rs, Typ: rt})
				vc.eng.noteAssumption("external function modelled as an uninterpreted pure function: " + key)
				continue
			}
		}
		n := vc.freshConst("r_"+shortName(key), rs)
		vc.assume("true", vc.sorts.typeInv(rt, n, st.nextRef))
		if key == "errors.New" || key == "fmt.Errorf" {
			vc.assume("true", "(not (= (itid "+n+") 0))")
		}
		results = append(results, Val{T: n, S: rs, Typ: rt})
		if pure {
			vc.eng.noteAssumption("external function assumed effect-free, result unconstrained: " + key)
		}
	}
	ex.bindResults(x, results)
}

func (ex *exec) builtin(st *State, x *ssa.Call, b *ssa.Builtin) {
	vc := ex.vc
	c := &x.Call
	switch b.Name() {
	case "len", "cap":
		v := ex.val(c.Args[0])
		switch v.S {
		case SSlice:
			if b.Name() == "cap" {
				ex.setVal(x, "(scap "+v.T+")")
			} else {
				ex.setVal(x, "(slen "+v.T+")")
			}
		case SStr:
			ex.setVal(x, "(gs.len "+v.T+")")
		default:
			if mt, ok := c.Args[0].Type().Underlying().(*types.Map); ok {
				_ = mt
				n := vc.freshConst("maplen", "Int")
				vc.assume("true", "(>= "+n+" 0)")
				vc.vals[x] = Val{T: n, S: SInt, Typ: intT}
				return
			}
			ex.bail("len of %s", c.Args[0].Type())
		}
	case "append":
		ex.appendCall(st, x)
	case "copy":
		ex.copyCall(st, x)
	case "print", "println":
	case "ssa:wrapnilchk":
		vc.vals[x] = ex.val(c.Args[0])
	case "ssa:deferstack":
		vc.vals[x] = Val{T: "0", S: SInt, Typ: x.Type()}
	case "delete":
		mt := c.Args[0].Type().Underlying().(*types.Map)
		has, _ := vc.mapHeaps(mt)
		m := ex.val(c.Args[0]).T
		k := ex.val(c.Args[1]).T
		hh := vc.heapGet(st, has)
		vc.heapSet(st, has, "(store "+hh+" "+m+" (store (select "+hh+" "+m+") "+k+" false))")
	case "min", "max":
		a, bb := ex.val(c.Args[0]), ex.val(c.Args[1])
		if b.Name() == "min" {
			ex.setVal(x, sIte("(<= "+a.T+" "+bb.T+")", a.T, bb.T))
		} else {
			ex.setVal(x, sIte("(>= "+a.T+" "+bb.T+")", a.T, bb.T))
		}
	default:
		ex.bail("builtin %s", b.Name())
	}
}

func (ex *exec) appendCall(st *State, x *ssa.Call) {
	vc := ex.vc
	c := &x.Call
	s := ex.val(c.Args[0])
	sl := c.Args[0].Type().Underlying().(*types.Slice)
	hi := vc.elemHeap(sl.Elem())
	var e Val
	var elemAt func(j string) string
	if bt, ok := c.Args[1].Type().Underlying().(*types.Basic); ok && bt.Info()&types.IsString != 0 {
		e = ex.val(c.Args[1])
		n := e.T
		e = Val{T: "(mkSlice 0 0 (gs.len " + n + ") (gs.len " + n + "))", S: SSlice}
		elemAt = func(j string) string { return "(gs.at " + n + " " + j + ")" }
	} else {
		e = ex.val(c.Args[1])
		h0 := vc.heapGet(st, hi)
		et := e.T
		elemAt = func(j string) string { return "(select (select " + h0 + " (sarr " + et + ")) (+ (soff " + et + ") " + j + "))" }
	}
	h := vc.heapGet(st, hi)
	n := vc.define("app_n", "Int", "(slen "+s.T+")")
	m := vc.define("app_m", "Int", "(slen "+e.T+")")
	inpl := vc.fresh("app_inplace")
	vc.declared[inpl] = true
	vc.addLine(fmt.Sprintf("(define-fun %s () Bool (<= (+ %s %s) (scap %s)))", inpl, n, m, s.T))
	oldArr := "(select " + h + " (sarr " + s.T + "))"
	base := vc.define("app_b", "Int", "(+ (soff "+s.T+") "+n+")")
	fresh := vc.allocRef(st)
	// one result array: in place → old cells with [off+n, off+n+m) overwritten; otherwise a fresh array holding
	// the old elements at [0,n), the appended ones at [n,n+m) and zero values elsewhere
	arr := vc.freshConst("app_arr", "(Array Int "+hi.valSort+")")
	vc.addLine(fmt.Sprintf("(assert (forall ((i! Int)) (! (= (select %s i!) (ite %s (ite (and (<= %s i!) (< i! (+ %s %s))) %s (select %s i!)) (ite (and (<= 0 i!) (< i! %s)) (select %s (+ (soff %s) i!)) (ite (and (<= %s i!) (< i! (+ %s %s))) %s %s)))) :pattern ((select %s i!)))))",
		arr, inpl, base, base, m, elemAt("(- i! "+base+")"), oldArr, n, oldArr, s.T, n, n, m, elemAt("(- i! "+n+")"), vc.sorts.zero(sl.Elem()), arr))
	newcap := vc.freshConst("app_cap", "Int")
	vc.assume(ex.cur, "(and (>= "+newcap+" (+ "+n+" "+m+")) (<= "+newcap+" 9223372036854775807))")
	vc.assume(ex.cur, "(<= (+ "+n+" "+m+") 9223372036854775807)")
	tgt := vc.define("app_tgt", "Int", sIte(inpl, "(sarr "+s.T+")", fresh))
	vc.heapSet(st, hi, "(store "+h+" "+tgt+" "+arr+")")
	ex.setVal(x, "(mkSlice "+tgt+" "+sIte(inpl, "(soff "+s.T+")", "0")+" (+ "+n+" "+m+") "+sIte(inpl, "(scap "+s.T+")", newcap)+")")
}

func (ex *exec) copyCall(st *State, x *ssa.Call) {
	vc := ex.vc
	c := &x.Call
	d := ex.val(c.Args[0])
	s := ex.val(c.Args[1])
	sl, ok := c.Args[0].Type().Underlying().(*types.Slice)
	if !ok || s.S != SSlice {
		ex.bail("copy with non-slice operands")
	}
	hi := vc.elemHeap(sl.Elem())
	h := vc.heapGet(st, hi)
	n := vc.define("copy_n", "Int", sIte("(<= (slen "+d.T+") (slen "+s.T+"))", "(slen "+d.T+")", "(slen "+s.T+")"))
	arr := vc.freshConst("copy_arr", "(Array Int "+hi.valSort+")")
	vc.addLine(fmt.Sprintf("(assert (forall ((i! Int)) (! (= (select %s i!) (ite (and (<= (soff %s) i!) (< i! (+ (soff %s) %s))) (select (select %s (sarr %s)) (+ (soff %s) (- i! (soff %s)))) (select (select %s (sarr %s)) i!))) :pattern ((select %s i!)))))",
		arr, d.T, d.T, n, h, s.T, s.T, d.T, h, d.T, arr))
	vc.heapSet(st, hi, "(store "+h+" (sarr "+d.T+") "+arr+")")
	ex.setVal(x, n)
}

// ---------------------------------------------------------------------------
// Frame check at return: everything allocated at entry and not listed in assigns is unchanged.

func (ex *exec) frameCheck(st *State, fc *FuncContract, pos string) {
	ex.frameCheckAgainst(st, ex.vc.entry, ex.vc.entry, fc.Assigns, ex.cur, "frame", pos, nil)
}

// frameCheckAgainst: every heap cell allocated in base and not covered by assigns (evaluated in evalSt)
// has the same value in st as in base.
func (ex *exec) frameCheckAgainst(st, base, evalSt *State, assigns []AssignLoc, cond, prefix, pos string, li *loopInfo) {
	vc := ex.vc
	env := ex.newEnv(evalSt, vc.entry) // assigns locations are evaluated in evalSt
	env.loop = li
	allowedField := map[string][]string{}
	allowedElemAll := map[string][]string{}
	allowedElemOne := map[string][][2]string{}
	allowedSpare := map[string][]string{}
	allowedMap := map[string][]string{}
	allowedGlobal := map[string]bool{}
	for _, a := range assigns {
		if id, ok := a.E.(*SIdent); ok {
			if _, isVar := env.lookupVar(id.Name); !isVar && (env.loop == nil || !env.hasLoopLocal(id.Name)) {
				if hi := ex.globalOf(env, id.Name); hi != nil {
					allowedGlobal[hi.name] = true
					continue
				}
			}
		}
		switch x := a.E.(type) {
		case *SSelect:
			b, err := env.term(x.X)
			if err != nil {
				ex.bail("assigns %s: %v", a.Text, err)
			}
			hi, ref, err := ex.fieldCell(env, b, x.Sel)
			if err != nil {
				ex.bail("assigns %s: %v", a.Text, err)
			}
			allowedField[hi.name] = append(allowedField[hi.name], ref)
		case *SCall:
			if x.Fun == "allfields" && len(x.Args) == 1 {
				b, err := env.term(x.Args[0])
				if err != nil {
					ex.bail("assigns %s: %v", a.Text, err)
				}
				if err := ex.allFieldCells(env, b, func(hi *heapInfo, ref string) {
					allowedField[hi.name] = append(allowedField[hi.name], ref)
				}); err != nil {
					ex.bail("assigns %s: %v", a.Text, err)
				}
				continue
			}
			if x.Fun != "spare" || len(x.Args) != 1 {
				ex.bail("assigns %s: unsupported location", a.Text)
			}
			b, err := env.term(x.Args[0])
			if err != nil {
				ex.bail("assigns %s: %v", a.Text, err)
			}
			if b.S != SSlice {
				ex.bail("assigns %s: not a slice", a.Text)
			}
			hi := vc.elemHeap(b.Typ.Underlying().(*types.Slice).Elem())
			allowedSpare[hi.name] = append(allowedSpare[hi.name], b.T)
		case *SIndex:
			b, err := env.term(x.X)
			if err != nil {
				ex.bail("assigns %s: %v", a.Text, err)
			}
			if m, ok := b.Typ.Underlying().(*types.Map); ok && b.S != SSlice {
				has, val := vc.mapHeaps(m)
				allowedMap[has.name] = append(allowedMap[has.name], b.T)
				allowedMap[val.name] = append(allowedMap[val.name], b.T)
				continue
			}
			if b.S != SSlice {
				ex.bail("assigns %s: not a slice", a.Text)
			}
			hi := vc.elemHeap(b.Typ.Underlying().(*types.Slice).Elem())
			if x.I == nil {
				allowedElemAll[hi.name] = append(allowedElemAll[hi.name], b.T)
			} else {
				idx, err := env.term(x.I)
				if err != nil {
					ex.bail("assigns %s: %v", a.Text, err)
				}
				allowedElemOne[hi.name] = append(allowedElemOne[hi.name], [2]string{b.T, idx.T})
			}
		default:
			ex.bail("assigns %s: unsupported location", a.Text)
		}
	}
	names := map[string]bool{}
	for k := range st.heap {
		names[k] = true
	}
	if st.epoch != base.epoch {
		vc.oblige(prefix+"[all]", "frame", cond, "false", "a callee without assigns clause havocs the whole heap", pos)
		return
	}
	bound := base.nextRef
	if li != nil {
		bound = evalSt.nextRef // objects allocated since the loop was entered are not framed
	}
	for _, name := range sortedKeys(names) {
		hi := vc.heaps[name]
		cur := st.heap[name]
		old := vc.heapGet(base, hi)
		if cur == old {
			continue
		}
		if hi.kind == heapGhost {
			continue // ghost state is updated only by declared ghost exits
		}
		var goal string
		switch hi.levels {
		case 0:
			if allowedGlobal[name] {
				continue
			}
			goal = sEq(cur, old)
		case 1:
			var ex2 []string
			for _, r := range allowedField[name] {
				ex2 = append(ex2, "(= r! "+r+")")
			}
			goal = "(forall ((r! Int)) (=> (and (< r! " + bound + ") (not " + sOr(ex2...) + ")) (= (select " + cur + " r!) (select " + old + " r!))))"
		case 2:
			var ex2 []string
			for _, s := range allowedElemAll[name] {
				ex2 = append(ex2, "(and (= r! (sarr "+s+")) (<= (soff "+s+") i!) (< i! (+ (soff "+s+") (slen "+s+"))))")
			}
			for _, s := range allowedSpare[name] {
				ex2 = append(ex2, "(and (= r! (sarr "+s+")) (>= i! (+ (soff "+s+") (slen "+s+"))) (< i! (+ (soff "+s+") (scap "+s+"))))")
			}
			for _, p := range allowedElemOne[name] {
				ex2 = append(ex2, "(and (= r! (sarr "+p[0]+")) (= i! (+ (soff "+p[0]+") "+p[1]+")))")
			}
			for _, m := range allowedMap[name] {
				ex2 = append(ex2, "(= r! "+m+")")
			}
			ks := hi.keySort
			if ks == "" {
				ks = "Int"
			}
			goal = "(forall ((r! Int) (i! " + ks + ")) (=> (and (< r! " + bound + ") (not " + sOr(ex2...) + ")) (= (select (select " + cur + " r!) i!) (select (select " + old + " r!) i!))))"
		}
		vc.oblige(prefix+"["+strings.TrimPrefix(name, "H")+"]", "frame", cond, goal, "only locations listed in assigns/modifies change (heap map "+name+")", pos)
	}
}
