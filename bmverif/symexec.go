package main

// Forward symbolic execution of a naive-form SSA function over its loop-cut CFG (passive form).

import (
	"fmt"
	"os"
	"go/constant"
	"go/token"
	"go/types"
	"sort"
	"strings"

	"golang.org/x/tools/go/ssa"
)

type edgeIn struct {
	cond string // SMT bool: edge taken
	st   *State
	from *ssa.BasicBlock
}

type exec struct {
	vc       *VC
	fn       *ssa.Function
	loops    []*loopInfo
	loopOf   map[*ssa.BasicBlock]*loopInfo // header → loop
	incoming map[*ssa.BasicBlock][]edgeIn
	reach    map[*ssa.BasicBlock]string
	headSt   map[*ssa.BasicBlock]*State // state right after havoc+assume at loop head
	variant0 map[*ssa.BasicBlock]string
	loopPre  map[*ssa.BasicBlock]*State // pre-loop state of loops with a modifies clause
	loopPreRef map[*ssa.BasicBlock]string // allocation counter when the loop was entered
	loopPreSt  map[*ssa.BasicBlock]*State // state when the loop was entered
	autoCands  map[*ssa.BasicBlock][]autoCand
	readSet    *locSet // declared read footprint of the function under verification (nil: unchecked)
	curBlock *ssa.BasicBlock
	cur      string // reach condition of current block
	retCount int
	specEnvBase *SpecEnv
	// engine-level ghost state, materialised only when the contract mentions it
	useVisited bool
	useEval    bool
	rangeOrd   map[*ssa.Range]int    // ordinal of each map iteration (source order)
	rangeRow   map[*ssa.Range]string // presence row of the ranged map when the iteration started
}

func posStr(fset *token.FileSet, p token.Pos) string {
	if p == token.NoPos {
		return ""
	}
	ps := fset.Position(p)
	f := ps.Filename
	if i := strings.Index(f, "/pkg/"); i >= 0 {
		f = f[i+1:]
	}
	return fmt.Sprintf("%s:%d", f, ps.Line)
}

// verifyAgainstIface checks a method of an implementing type against the interface-level contract
// (behavioural subtyping). Loop annotations come from the method's own contract when it has one.
func (eng *Engine) verifyAgainstIface(fn *ssa.Function, ifc *FuncContract, own *FuncContract) *VC {
	eff := *ifc
	eff.Loops = map[int]*LoopSpec{}
	if own != nil {
		eff.Loops = own.Loops
	}
	eff.Props = ifc.Props
	return eng.verifyHoudini(func(drop map[string]bool) *VC {
	return eng.verifyFunctionTagged(fn, &eff, "@iface", func(vc *VC) {
		vc.autoDrop = drop
		vc.paramAlias = map[string]ssa.Value{}
		if strings.HasPrefix(ifc.Key, "functype:") {
			for i, n := range ifc.ParamNames {
				if i < len(fn.Params) {
					vc.paramAlias[n] = fn.Params[i]
				}
			}
		} else if len(fn.Params) > 0 {
			vc.paramAlias[ifc.RecvName] = fn.Params[0]
			for i, n := range ifc.ParamNames {
				if i+1 < len(fn.Params) {
					vc.paramAlias[n] = fn.Params[i+1]
				}
			}
		}
	})
	})
}

func (eng *Engine) verifyFunction(fn *ssa.Function, fc *FuncContract) *VC {
	return eng.verifyHoudini(func(drop map[string]bool) *VC {
		return eng.verifyFunctionTagged(fn, fc, "", func(vc *VC) { vc.autoDrop = drop })
	})
}

// verifyFunctionTagged generates all obligations for fn under its contract.
func (eng *Engine) verifyFunctionTagged(fn *ssa.Function, fc *FuncContract, tag string, init func(*VC)) (vc *VC) {
	vc = newVC(eng, fn)
	vc.tag = tag
	if init != nil {
		init(vc)
	}
	vc.contract = fc
	if fc != nil {
		vc.props = fc.Props
	}
	defer func() {
		if r := recover(); r != nil {
			if us, ok := r.(unsupportedErr); ok {
				vc.outside = string(us)
			} else {
				panic(r)
			}
		}
	}()
	ex := &exec{vc: vc, fn: fn, loopOf: map[*ssa.BasicBlock]*loopInfo{}, incoming: map[*ssa.BasicBlock][]edgeIn{},
		reach: map[*ssa.BasicBlock]string{}, headSt: map[*ssa.BasicBlock]*State{}, variant0: map[*ssa.BasicBlock]string{}, loopPre: map[*ssa.BasicBlock]*State{}, loopPreRef: map[*ssa.BasicBlock]string{}, loopPreSt: map[*ssa.BasicBlock]*State{}, autoCands: map[*ssa.BasicBlock][]autoCand{}}
	if len(fn.Blocks) == 0 {
		vc.outside = "no body"
		return vc
	}
	loops, err := findLoops(fn)
	if err != nil {
		vc.outside = err.Error()
		return vc
	}
	ex.loops = loops
	ex.useVisited = fc.mentions("visited(")
	ex.useEval = fc.mentionsEval()
	ex.rangeOrd = map[*ssa.Range]int{}
	ex.rangeRow = map[*ssa.Range]string{}
	for _, l := range loops {
		ex.loopOf[l.header] = l
		if os.Getenv("BMVERIF_DEBUG_LOCALS") != "" {
			fmt.Fprintf(os.Stderr, "loop %d: header block %d (%s) at %v\n", l.ordinal, l.header.Index, l.header.Comment, eng.fset.Position(l.astNode.Pos()))
		}
	}
	ex.run()
	vc.fieldFacts()
	return vc
}

type unsupportedErr string

func (ex *exec) bail(format string, a ...interface{}) {
	panic(unsupportedErr(fmt.Sprintf(format, a...)))
}

func (ex *exec) run() {
	vc := ex.vc
	fn := ex.fn
	st := &State{locals: map[*ssa.Alloc]string{}, heap: map[string]string{}}
	vc.declConst("nextRef0", "Int")
	vc.assume("true", "(> nextRef0 0)")
	st.nextRef = "nextRef0"
	vc.epochBound[0] = "nextRef0"
	// parameters
	for _, p := range fn.Params {
		name := "p_" + sanitize(p.Name())
		sort := vc.sorts.sortOf(p.Type())
		vc.declConst(name, sort)
		vc.assume("true", vc.sorts.typeInv(p.Type(), name, "nextRef0"))
		vc.vals[p] = Val{T: name, S: sort, Typ: p.Type()}
	}
	// captured variables of a closure: symbolic (the closure may be called in any environment of that shape)
	for _, fv := range fn.FreeVars {
		name := "fv_" + sanitize(fv.Name())
		sort := vc.sorts.sortOf(fv.Type())
		vc.declConst(name, sort)
		vc.assume("true", vc.sorts.typeInv(fv.Type(), name, "nextRef0"))
		if _, isPtr := fv.Type().Underlying().(*types.Pointer); isPtr {
			vc.assume("true", "(not (= "+name+" 0))")
		}
		vc.vals[fv] = Val{T: name, S: sort, Typ: fv.Type()}
	}
	vc.entry = st.clone()
	env := ex.newEnv(st, st)
	ex.specEnvBase = env
	// preconditions
	if vc.contract != nil {
		for i, c := range vc.contract.Requires {
			parts, err := env.splitGoal(c.E, clauseName(c, i))
			if err != nil {
				ex.bail("requires %d (line %d): %v", i+1, c.Line, err)
			}
			vc.comment("requires: " + c.Text)
			for _, p := range parts {
				vc.assume("true", p.t)
			}
		}
		for _, name := range vc.contract.Uses {
			var lm *Lemma
			for _, l := range vc.eng.lemmas {
				if l.Name == name && l.Axiom && (l.Pkg == vc.contract.Pkg || l.Pkg == "") {
					lm = l
				}
			}
			if lm == nil {
				ex.bail("uses %s: no such axiom", name)
			}
			t, err := env.term(lm.E)
			if err != nil {
				ex.bail("axiom %s: %v", name, err)
			}
			vc.comment("axiom " + name + ": " + lm.Text)
			vc.assume("true", t.T)
			vc.eng.noteAssumption("axiom (assumed, not proved) " + name + " used by " + vc.fkey + ": " + lm.Text)
		}
		vc.probe("vacuity.requires", "true", "preconditions and type invariants are satisfiable")
		ex.coverObligations()
		if vc.contract.HasReads {
			ls, err := ex.evalLocSet(env, vc.contract.Reads)
			if err != nil {
				ex.bail("reads clause: %v", err)
			}
			// the closure's own environment cells (captured variables) may be read
			for _, fv := range fn.FreeVars {
				if pt, ok := fv.Type().Underlying().(*types.Pointer); ok {
					if _, isStruct := pt.Elem().Underlying().(*types.Struct); !isStruct {
						h := vc.derefHeap(pt.Elem())
						ls.fieldRefs[h.name] = append(ls.fieldRefs[h.name], vc.vals[fv].T)
					}
				}
			}
			ex.readSet = ls
		}
	}
	// block order: reverse postorder ignoring back edges
	order := ex.rpo()
	ex.incoming[fn.Blocks[0]] = []edgeIn{{cond: "true", st: st}}
	for _, b := range order {
		ex.block(b)
	}
}

func (ex *exec) isBackEdge(from, to *ssa.BasicBlock) bool {
	return to.Dominates(from)
}

func (ex *exec) rpo() []*ssa.BasicBlock {
	seen := map[*ssa.BasicBlock]bool{}
	var post []*ssa.BasicBlock
	var dfs func(b *ssa.BasicBlock)
	dfs = func(b *ssa.BasicBlock) {
		seen[b] = true
		for _, s := range b.Succs {
			if !seen[s] && !ex.isBackEdge(b, s) {
				dfs(s)
			}
		}
		post = append(post, b)
	}
	dfs(ex.fn.Blocks[0])
	for i, j := 0, len(post)-1; i < j; i, j = i+1, j-1 {
		post[i], post[j] = post[j], post[i]
	}
	return post
}

// merge incoming states
func (ex *exec) mergeIn(b *ssa.BasicBlock) (*State, string) {
	vc := ex.vc
	ins := ex.incoming[b]
	if len(ins) == 0 {
		return nil, "false"
	}
	var conds []string
	for _, e := range ins {
		conds = append(conds, e.cond)
	}
	reach := sOr(conds...)
	if len(ins) == 1 {
		r := reach
		if len(r) > 30 {
			n := vc.fresh(fmt.Sprintf("reach_b%d", b.Index))
			vc.declared[n] = true
			vc.addLine(fmt.Sprintf("(define-fun %s () Bool %s)", n, r))
			r = n
		}
		return ins[0].st.clone(), r
	}
	rn := vc.fresh(fmt.Sprintf("reach_b%d", b.Index))
	vc.declared[rn] = true
	vc.addLine(fmt.Sprintf("(define-fun %s () Bool %s)", rn, reach))
	st := ex.mergeCore(ins)
	// baselines of the current frame segments, one per enclosing loop: kept where every incoming edge carries one
	st.syncBase = nil
	for hdr := range ins[0].st.syncBase {
		all, same := true, true
		for _, e := range ins {
			b, ok := e.st.syncBase[hdr]
			if !ok {
				all = false
				break
			}
			if b != ins[0].st.syncBase[hdr] {
				same = false
			}
		}
		if !all {
			continue
		}
		if st.syncBase == nil {
			st.syncBase = map[*ssa.BasicBlock]*State{}
		}
		if same {
			st.syncBase[hdr] = ins[0].st.syncBase[hdr]
			continue
		}
		var ins2 []edgeIn
		for _, e := range ins {
			ins2 = append(ins2, edgeIn{cond: e.cond, st: e.st.syncBase[hdr], from: e.from})
		}
		st.syncBase[hdr] = ex.mergeCore(ins2)
	}
	return st, rn
}

// mergeCore merges the states of several incoming edges (each under its edge condition) into one.
func (ex *exec) mergeCore(ins []edgeIn) *State {
	vc := ex.vc
	st := &State{locals: map[*ssa.Alloc]string{}, heap: map[string]string{}}
	// epoch
	sameEpoch := true
	for _, e := range ins {
		if e.st.epoch != ins[0].st.epoch {
			sameEpoch = false
		}
	}
	if sameEpoch {
		st.epoch = ins[0].st.epoch
	} else {
		vc.nfresh++
		st.epoch = vc.nfresh
	}
	// nextRef
	st.nextRef = ex.mergeTerm("nextRef", "Int", ins, func(s *State) (string, bool) { return s.nextRef, true })
	if !sameEpoch {
		vc.epochBound[st.epoch] = st.nextRef
		vc.epochBlk[st.epoch] = vc.curBlk
	}
	// locals
	keys := map[*ssa.Alloc]bool{}
	for _, e := range ins {
		for k := range e.st.locals {
			keys[k] = true
		}
	}
	var klist []*ssa.Alloc
	for k := range keys {
		klist = append(klist, k)
	}
	sort.Slice(klist, func(i, j int) bool { return valueName(klist[i]) < valueName(klist[j]) })
	for _, k := range klist {
		k := k
		sortS := vc.sorts.sortOf(k.Type().(*types.Pointer).Elem())
		st.locals[k] = ex.mergeTerm("l_"+k.Comment, sortS, ins, func(s *State) (string, bool) { t, ok := s.locals[k]; return t, ok })
	}
	// heap
	hkeys := map[string]bool{}
	for _, e := range ins {
		for k := range e.st.heap {
			hkeys[k] = true
		}
	}
	for _, k := range sortedKeys(hkeys) {
		k := k
		hi := vc.heaps[k]
		t := ex.mergeTerm(k, hi.sort, ins, func(s *State) (string, bool) {
			if t, ok := s.heap[k]; ok {
				return t, true
			}
			return vc.heapGet(s, hi), true
		})
		if !sameEpoch || t != fmt.Sprintf("%s_e%d", k, st.epoch) {
			st.heap[k] = t
		}
	}
	return st
}

func valueName(v ssa.Value) string { return fmt.Sprintf("%s@%d", v.Name(), v.Pos()) }

func (ex *exec) mergeTerm(prefix, sortS string, ins []edgeIn, get func(*State) (string, bool)) string {
	vc := ex.vc
	first := ""
	same := true
	n := 0
	for _, e := range ins {
		t, ok := get(e.st)
		if !ok {
			continue
		}
		n++
		if first == "" {
			first = t
		} else if t != first {
			same = false
		}
	}
	if n == 0 {
		return ""
	}
	if same {
		return first
	}
	m := vc.freshConst("m_"+prefix, sortS)
	for _, e := range ins {
		t, ok := get(e.st)
		if !ok {
			continue
		}
		vc.addLine("(assert "+sImp(e.cond, sEq(m, t))+")")
	}
	return m
}

// ---------------------------------------------------------------------------

func (ex *exec) block(b *ssa.BasicBlock) {
	vc := ex.vc
	// ancestors of b over forward edges
	anc := map[int]bool{b.Index: true}
	for _, e := range ex.incoming[b] {
		if e.from != nil {
			for k := range vc.ancestors[e.from.Index] {
				anc[k] = true
			}
		}
	}
	vc.ancestors[b.Index] = anc
	vc.curBlk = b.Index
	st, reach := ex.mergeIn(b)
	if st == nil {
		return // unreachable
	}
	ex.curBlock = b
	vc.curBlk = b.Index
	ex.cur = reach
	ex.reach[b] = reach
	vc.comment(fmt.Sprintf("---- block %d (%s)", b.Index, b.Comment))
	if li := ex.loopOf[b]; li != nil {
		ex.loopHead(li, st)
	}
	for _, ins := range b.Instrs {
		ex.instr(st, ins)
		if vc.outside != "" {
			ex.bail("%s", vc.outside)
		}
	}
}

func (ex *exec) loopSpec(li *loopInfo) *LoopSpec {
	if ex.vc.contract == nil {
		return nil
	}
	return ex.vc.contract.Loops[li.ordinal]
}

func (ex *exec) loopEnv(li *loopInfo, st *State) *SpecEnv {
	env := ex.newEnv(st, ex.vc.entry)
	env.loop = li
	return env
}

func (ex *exec) loopHead(li *loopInfo, st *State) {
	vc := ex.vc
	spec := ex.loopSpec(li)
	pos := posStr(vc.eng.fset, li.astNode.Pos())
	ex.loopPreRef[li.header] = st.nextRef
	ex.loopPreSt[li.header] = st.clone()
	// 1. invariants hold on entry
	if spec != nil {
		env := ex.loopEnv(li, st)
		for i, c := range spec.Invariants {
			parts, err := env.splitGoal(c.E, clauseName(c, i))
			if err != nil {
				ex.bail("loop %d invariant (line %d): %v", li.ordinal, c.Line, err)
			}
			for _, p := range parts {
				vc.oblige(fmt.Sprintf("loop%d.entry[%s]", li.ordinal, p.name), "loop", ex.cur, p.t, c.Text, pos)
			}
		}
		for i, c := range spec.EntryOnly {
			parts, err := env.splitGoal(c.E, clauseName(c, i))
			if err != nil {
				ex.bail("loop %d entry clause (line %d): %v", li.ordinal, c.Line, err)
			}
			for _, p := range parts {
				vc.oblige(fmt.Sprintf("loop%d.at_entry[%s]", li.ordinal, p.name), "loop", ex.cur, p.t, c.Text, pos)
			}
		}
	}
	// 2. havoc what the loop modifies
	modLocals, modHeaps, all := ex.loopModifies(li)
	pre := st.clone()
	if spec != nil && spec.HasModifies {
		// (a call without contract on a reachable path of the body still havocs everything when it is executed,
		// and then the back-edge frame check fails; statically dead calls, e.g. under a constant debug flag, do not matter)
		_ = all
		// precise havoc: only the listed locations (evaluated in the pre-loop state); every other heap map the
		// loop touches must stay within them, which is checked at each back edge (loopN.frame[...]).
		nr := vc.freshConst("nextRef", "Int")
		vc.assume("true", "(>= "+nr+" "+st.nextRef+")")
		st.nextRef = nr
		menv := ex.loopEnv(li, pre)
		for _, a := range spec.Modifies {
			if err := ex.havocAssign(st, pre, menv, a); err != nil {
				ex.bail("loop %d modifies %s: %v", li.ordinal, a.Text, err)
			}
		}
		ex.loopPre[li.header] = pre
	} else if all {
		if vc.contract != nil && vc.contract.HasSync {
			keeps := ex.syncKeeps(pre)
			vc.havocAllHeap(st)
			skip := map[string]bool{}
			for _, h := range modHeaps {
				skip[h] = true
			}
			ex.applyKeeps(keeps, pre, st, skip)
		} else {
			vc.havocAllHeap(st)
		}
	} else {
		nr := vc.freshConst("nextRef", "Int")
		vc.assume("true", "(>= "+nr+" "+st.nextRef+")")
		st.nextRef = nr
		for _, h := range modHeaps {
			vc.heapHavoc(st, vc.heaps[h])
		}
	}
	for _, a := range modLocals {
		if _, live := st.locals[a]; !live {
			continue // allocated inside the loop: initialised there
		}
		t := a.Type().(*types.Pointer).Elem()
		n := vc.freshConst("l_"+a.Comment, vc.sorts.sortOf(t))
		vc.assume("true", vc.sorts.typeInv(t, n, st.nextRef))
		st.locals[a] = n
	}
	// engine-level ghost state changed by the body
	for _, gh := range ex.loopGhosts(li) {
		vc.heapHavoc(st, gh)
	}
	// automatically inferred frame facts (sound by construction):
	ex.autoLoopFacts(li, pre, st)
	// candidate invariants (Houdini): assumed here, checked at every back edge, dropped by the driver when a check fails
	ex.autoCandidates(li, pre, st, modLocals)
	// 3. assume invariants
	if spec != nil {
		env := ex.loopEnv(li, st)
		for i, c := range spec.Invariants {
			parts, err := env.splitGoal(c.E, clauseName(c, i))
			if err != nil {
				ex.bail("loop %d invariant (line %d): %v", li.ordinal, c.Line, err)
			}
			vc.comment("assume invariant: " + c.Text)
			for _, p := range parts {
				vc.assume(ex.cur, p.t)
			}
		}
		if spec.Decreases != nil {
			v, err := env.term(spec.Decreases.E)
			if err != nil {
				ex.bail("loop %d decreases: %v", li.ordinal, err)
			}
			ex.variant0[li.header] = vc.define("variant", "Int", v.T)
		}
		vc.probe(fmt.Sprintf("vacuity.loop%d", li.ordinal), ex.cur, "loop invariant is satisfiable at the loop head")
	}
	ex.headSt[li.header] = st.clone()
	if spec != nil && spec.HasModifies {
		if st.syncBase == nil {
			st.syncBase = map[*ssa.BasicBlock]*State{}
		}
		st.syncBase[li.header] = ex.headSt[li.header]
	}
}

func clauseName(c Clause, i int) string {
	if c.Label != "" {
		return c.Label
	}
	return fmt.Sprintf("%d", i+1)
}

// autoLoopFacts: facts that hold at every loop head without annotation.
//   - a range-index counter is >= -1 and < len of the ranged slice is NOT assumed (it follows from the code);
//     what is sound to assume: rangeindex >= -1 (it starts at -1 and only increases by one per iteration
//     while < len), proved here by the shape of the header block.
func (ex *exec) autoLoopFacts(li *loopInfo, pre, st *State) {
	vc := ex.vc
	if li.rangeIdx != nil {
		// header is exactly: t = *idx; t' = t+1; *idx = t'; if t' < len goto body else done, and no other store to idx in the loop
		stores := 0
		for b := range li.blocks {
			for _, ins := range b.Instrs {
				if s, ok := ins.(*ssa.Store); ok && s.Addr == ssa.Value(li.rangeIdx) {
					stores++
				}
			}
		}
		if stores == 1 {
			if cur, ok := st.locals[li.rangeIdx]; ok {
				// -1 <= idx ; and idx < len(ranged) whenever at least one iteration ran is implied by the code; we add
				// the inductive bound -1 <= idx <= len-1 using the length value computed before the loop.
				var lenTerm string
				for _, ins := range li.header.Instrs {
					if bo, ok := ins.(*ssa.BinOp); ok && bo.Op == token.LSS {
						if v, ok := vc.vals[bo.Y]; ok {
							lenTerm = v.T
						}
					}
				}
				f := "(<= (- 1) " + cur + ")"
				if lenTerm != "" {
					f = sAnd(f, "(or (= "+cur+" (- 1)) (< "+cur+" "+lenTerm+"))")
				}
				vc.comment("auto: range index bounds (inductive by the shape of the range loop header)")
				vc.assume(ex.cur, f)
			}
		}
	}
}

// loopModifies computes the locals and heap maps a loop may modify.
func (ex *exec) loopModifies(li *loopInfo) (locals []*ssa.Alloc, heaps []string, all bool) {
	vc := ex.vc
	lset := map[*ssa.Alloc]bool{}
	hset := map[string]bool{}
	var rootOf func(v ssa.Value) (a *ssa.Alloc, heap string, ok bool)
	rootOf = func(v ssa.Value) (*ssa.Alloc, string, bool) {
		switch x := v.(type) {
		case *ssa.Alloc:
			if !x.Heap {
				return x, "", true
			}
			et := x.Type().(*types.Pointer).Elem()
			if _, isArr := et.Underlying().(*types.Array); isArr {
				return nil, vc.elemHeap(et.Underlying().(*types.Array).Elem()).name, true
			}
			if _, isStruct := et.Underlying().(*types.Struct); isStruct {
				return nil, "", false // handled by FieldAddr case
			}
			return nil, vc.derefHeap(et).name, true
		case *ssa.FieldAddr:
			// local struct?
			if a, h, ok := rootOf(x.X); ok && a != nil {
				return a, h, true
			}
			// value-struct element of a slice: s[i].f
			if ia, ok := x.X.(*ssa.IndexAddr); ok {
				return rootOf(ia)
			}
			pt := x.X.Type().Underlying().(*types.Pointer).Elem()
			return nil, vc.fieldHeap(pt, x.Field).name, true
		case *ssa.IndexAddr:
			switch t := x.X.Type().Underlying().(type) {
			case *types.Slice:
				return nil, vc.elemHeap(t.Elem()).name, true
			case *types.Pointer:
				if a, h, ok := rootOf(x.X); ok && a != nil {
					return a, h, true
				}
				at := t.Elem().Underlying().(*types.Array)
				return nil, vc.elemHeap(at.Elem()).name, true
			}
		case *ssa.Global:
			return nil, vc.globalHeap(x).name, true
		}
		if pt, ok := v.Type().Underlying().(*types.Pointer); ok {
			if _, isStruct := pt.Elem().Underlying().(*types.Struct); !isStruct {
				return nil, vc.derefHeap(pt.Elem()).name, true
			}
		}
		return nil, "", false
	}
	for b := range li.blocks {
		for _, ins := range b.Instrs {
			switch x := ins.(type) {
			case *ssa.Alloc:
				if !x.Heap {
					lset[x] = true
				}
			case *ssa.Store:
				a, h, ok := rootOf(x.Addr)
				if !ok {
					all = true
				} else if a != nil {
					lset[a] = true
				} else {
					hset[h] = true
				}
			case *ssa.MapUpdate:
				mt := x.Map.Type().Underlying().(*types.Map)
				has, val := vc.mapHeaps(mt)
				hset[has.name] = true
				hset[val.name] = true
			case *ssa.MakeSlice:
				hset[vc.elemHeap(x.Type().Underlying().(*types.Slice).Elem()).name] = true
			case *ssa.Call:
				names, callAll := ex.callModifies(x)
				if callAll {
					all = true
				}
				for _, n := range names {
					hset[n] = true
				}
			case *ssa.Go, *ssa.Defer, *ssa.Send, *ssa.Select:
				all = true
			case *ssa.UnOp:
				if x.Op == token.ARROW {
					all = true
				}
			}
		}
	}
	for a := range lset {
		locals = append(locals, a)
	}
	sort.Slice(locals, func(i, j int) bool { return valueName(locals[i]) < valueName(locals[j]) })
	heaps = sortedKeys(hset)
	return
}

// ---------------------------------------------------------------------------

func (ex *exec) val(v ssa.Value) Val {
	vc := ex.vc
	if x, ok := vc.vals[v]; ok {
		return x
	}
	switch c := v.(type) {
	case *ssa.Const:
		return ex.constVal(c)
	case *ssa.Function:
		n := "fn_" + sanitize(funcKey(c))
		vc.declConst(n, "Int")
		return Val{T: n, S: SInt, Typ: c.Type()}
	case *ssa.Global:
		ex.bail("global address %s used as value", c.Name())
	case *ssa.Builtin:
		ex.bail("builtin %s used as value", c.Name())
	}
	if l, ok := vc.locs[v]; ok {
		return Val{T: ex.locToRef(l), S: SInt, Typ: v.Type()}
	}
	ex.bail("value %s (%T) not defined", v.Name(), v)
	return Val{}
}

func (ex *exec) constVal(c *ssa.Const) Val {
	vc := ex.vc
	t := c.Type()
	s := vc.sorts.sortOf(t)
	if c.Value == nil {
		return Val{T: vc.sorts.zero(t), S: s, Typ: t}
	}
	switch c.Value.Kind() {
	case constant.Bool:
		if constant.BoolVal(c.Value) {
			return Val{T: "true", S: SBool, Typ: t}
		}
		return Val{T: "false", S: SBool, Typ: t}
	case constant.Int:
		if s == SFlt {
			return Val{T: ex.fltConst(c.Value.ExactString()), S: SFlt, Typ: t}
		}
		return Val{T: sBig(c.Value.ExactString()), S: SInt, Typ: t}
	case constant.String:
		return Val{T: vc.strLit(constant.StringVal(c.Value)), S: SStr, Typ: t}
	case constant.Float, constant.Complex:
		return Val{T: ex.fltConst(c.Value.ExactString()), S: SFlt, Typ: t}
	}
	ex.bail("constant kind %v", c.Value.Kind())
	return Val{}
}

func (ex *exec) fltConst(s string) string {
	if s == "0" {
		return "flt.zero"
	}
	n := "fltc_" + sanitize(s)
	if !ex.vc.declared[n] {
		ex.vc.declared[n] = true
		ex.vc.decls = append(ex.vc.decls, "(declare-const "+n+" Flt)", "(assert (not (= "+n+" flt.zero)))")
	}
	return n
}

// locOf returns the location an address value denotes.
func (ex *exec) locOf(v ssa.Value) *Loc {
	vc := ex.vc
	if l, ok := vc.locs[v]; ok {
		return l
	}
	switch x := v.(type) {
	case *ssa.Global:
		hi := vc.globalHeap(x)
		return &Loc{kind: locGlobal, heap: hi.name, rootTyp: hi.valType, typ: hi.valType}
	}
	// a first-class pointer value
	pv := ex.val(v)
	pt, ok := v.Type().Underlying().(*types.Pointer)
	if !ok {
		ex.bail("address of non-pointer %s", v.Name())
	}
	et := pt.Elem()
	if _, isStruct := et.Underlying().(*types.Struct); isStruct {
		// whole-struct access through a pointer: handled field-wise by callers (loadStructRef)
		return &Loc{kind: locDeref, heap: "", ref: pv.T, rootTyp: et, typ: et}
	}
	if at, isArr := et.Underlying().(*types.Array); isArr {
		_ = at
		return &Loc{kind: locDeref, heap: "", ref: pv.T, rootTyp: et, typ: et}
	}
	hi := vc.derefHeap(et)
	return &Loc{kind: locDeref, heap: hi.name, ref: pv.T, rootTyp: et, typ: et}
}

// locToRef converts a location to a first-class reference when possible.
func (ex *exec) locToRef(l *Loc) string {
	vc := ex.vc
	switch l.kind {
	case locDeref:
		if len(l.path) == 0 {
			return l.ref
		}
	}
	_ = vc
	ex.bail("address of a local/element/field escapes as a first-class pointer (type %s)", l.typ)
	return ""
}

func (ex *exec) nilCheck(ref string, what string, pos token.Pos) {
	ex.vc.oblige("safety.nil["+what+"]", "safety", ex.cur, "(not (= "+ref+" 0))", "nil dereference: "+what, posStr(ex.vc.eng.fset, pos))
	ex.vc.assume(ex.cur, "(not (= "+ref+" 0))")
}

// structRefField: location of field idx of the struct that pointer term ref points to.
func (ex *exec) structRefField(ref string, structT types.Type, idx int) *Loc {
	vc := ex.vc
	st := structT.Underlying().(*types.Struct)
	ft := st.Field(idx).Type()
	if _, nested := ft.Underlying().(*types.Struct); nested {
		// interior struct: address function; the result is a "pointer to the nested struct"
		return &Loc{kind: locDeref, heap: "", ref: vc.interiorRef(structT, idx, ref), rootTyp: ft, typ: ft}
	}
	hi := vc.fieldHeap(structT, idx)
	return &Loc{kind: locField, heap: hi.name, ref: ref, rootTyp: ft, typ: ft}
}

func (ex *exec) fieldAddr(x *ssa.FieldAddr) *Loc {
	vc := ex.vc
	structT := x.X.Type().Underlying().(*types.Pointer).Elem()
	sty := structT.Underlying().(*types.Struct)
	ft := sty.Field(x.Field).Type()
	if base, ok := vc.locs[x.X]; ok {
		// base is a location holding a struct value
		if base.kind == locDeref && base.heap == "" && len(base.path) == 0 {
			return ex.structRefField(base.ref, structT, x.Field)
		}
		nl := *base
		nl.path = append(append([]pathElem{}, base.path...), pathElem{field: x.Field, typ: structT})
		nl.typ = ft
		return &nl
	}
	pv := ex.val(x.X)
	ex.nilCheck(pv.T, "field "+sty.Field(x.Field).Name(), x.Pos())
	return ex.structRefField(pv.T, structT, x.Field)
}

func (ex *exec) boundsCheck(idx, n string, what string, pos token.Pos) {
	ex.vc.oblige("safety.index["+what+"]", "safety", ex.cur, "(and (<= 0 "+idx+") (< "+idx+" "+n+"))", "index in range: "+what, posStr(ex.vc.eng.fset, pos))
	ex.vc.assume(ex.cur, "(and (<= 0 "+idx+") (< "+idx+" "+n+"))")
}

func (ex *exec) describe(v ssa.Value) string {
	// a short stable description of an operand for obligation names: source variable or field when known
	switch x := v.(type) {
	case *ssa.UnOp:
		if x.Op == token.MUL {
			return ex.describe(x.X)
		}
	case *ssa.Alloc:
		if x.Comment != "" {
			return x.Comment
		}
	case *ssa.FieldAddr:
		st := x.X.Type().Underlying().(*types.Pointer).Elem().Underlying().(*types.Struct)
		return st.Field(x.Field).Name()
	case *ssa.Field:
		st := x.X.Type().Underlying().(*types.Struct)
		return st.Field(x.Field).Name()
	case *ssa.Parameter:
		return x.Name()
	case *ssa.Slice:
		return ex.describe(x.X)
	case *ssa.IndexAddr:
		return ex.describe(x.X)
	case *ssa.Call:
		if f := x.Call.StaticCallee(); f != nil {
			return f.Name() + "()"
		}
	case *ssa.Extract:
		return ex.describe(x.Tuple)
	case *ssa.Lookup:
		return ex.describe(x.X)
	}
	return "expr"
}

func (ex *exec) indexAddr(x *ssa.IndexAddr) *Loc {
	vc := ex.vc
	idx := ex.val(x.Index).T
	switch t := x.X.Type().Underlying().(type) {
	case *types.Slice:
		sv := ex.val(x.X)
		ex.boundsCheck(idx, "(slen "+sv.T+")", ex.describe(x.X), x.Pos())
		hi := vc.elemHeap(t.Elem())
		abs := vc.define("ix", "Int", "(+ (soff "+sv.T+") "+idx+")")
		return &Loc{kind: locElem, heap: hi.name, ref: "(sarr " + sv.T + ")", idx: abs, rootTyp: t.Elem(), typ: t.Elem()}
	case *types.Pointer:
		at := t.Elem().Underlying().(*types.Array)
		ex.boundsCheck(idx, fmt.Sprint(at.Len()), ex.describe(x.X), x.Pos())
		if base, ok := vc.locs[x.X]; ok && !(base.kind == locDeref && base.heap == "") {
			nl := *base
			nl.path = append(append([]pathElem{}, base.path...), pathElem{isIdx: true, idx: idx, typ: t.Elem()})
			nl.typ = at.Elem()
			return &nl
		}
		var ref string
		if base, ok := vc.locs[x.X]; ok {
			ref = base.ref
		} else {
			ref = ex.val(x.X).T
		}
		hi := vc.elemHeap(at.Elem())
		return &Loc{kind: locElem, heap: hi.name, ref: ref, idx: idx, rootTyp: at.Elem(), typ: at.Elem()}
	}
	ex.bail("IndexAddr on %s", x.X.Type())
	return nil
}

// loadStruct reads a whole struct value through a struct pointer (field-wise from the heap maps).
func (ex *exec) loadStructRef(st *State, ref string, structT types.Type) string {
	vc := ex.vc
	sty := structT.Underlying().(*types.Struct)
	name := vc.sorts.structSort(structT, sty)
	args := make([]string, sty.NumFields())
	for i := 0; i < sty.NumFields(); i++ {
		l := ex.structRefField(ref, structT, i)
		args[i] = ex.load(st, l).T
	}
	return sApp("mk_"+name, args...)
}

func (ex *exec) storeStructRef(st *State, ref string, structT types.Type, val string) {
	vc := ex.vc
	sty := structT.Underlying().(*types.Struct)
	name := vc.sorts.structSort(structT, sty)
	si := vc.sorts.structs[name]
	for i := 0; i < sty.NumFields(); i++ {
		l := ex.structRefField(ref, structT, i)
		ex.store(st, l, "("+si.fields[i]+" "+val+")")
	}
}

func (ex *exec) load(st *State, l *Loc) Val {
	vc := ex.vc
	if l.kind == locDeref && l.heap == "" {
		if len(l.path) != 0 {
			ex.bail("path on struct reference")
		}
		if _, isStruct := l.typ.Underlying().(*types.Struct); isStruct {
			return Val{T: ex.loadStructRef(st, l.ref, l.typ), S: vc.sorts.sortOf(l.typ), Typ: l.typ}
		}
		if at, isArr := l.typ.Underlying().(*types.Array); isArr {
			hi := vc.elemHeap(at.Elem())
			return Val{T: "(select " + vc.heapGet(st, hi) + " " + l.ref + ")", S: vc.sorts.sortOf(l.typ), Typ: l.typ}
		}
		ex.bail("load through untyped reference")
	}
	return vc.loadLoc(st, l)
}

func (ex *exec) store(st *State, l *Loc, v string) {
	vc := ex.vc
	if l.kind == locDeref && l.heap == "" {
		if _, isStruct := l.typ.Underlying().(*types.Struct); isStruct {
			ex.storeStructRef(st, l.ref, l.typ, v)
			return
		}
		if at, isArr := l.typ.Underlying().(*types.Array); isArr {
			hi := vc.elemHeap(at.Elem())
			vc.heapSet(st, hi, "(store "+vc.heapGet(st, hi)+" "+l.ref+" "+v+")")
			return
		}
		ex.bail("store through untyped reference")
	}
	vc.storeLoc(st, l, v)
}

func (ex *exec) setVal(v ssa.Value, t string) {
	vc := ex.vc
	s := vc.sorts.sortOf(v.Type())
	vc.vals[v] = Val{T: vc.define(v.Name(), s, t), S: s, Typ: v.Type()}
}

func (ex *exec) instr(st *State, ins ssa.Instruction) {
	vc := ex.vc
	switch x := ins.(type) {
	case *ssa.DebugRef:
	case *ssa.Alloc:
		et := x.Type().(*types.Pointer).Elem()
		if !x.Heap {
			st.locals[x] = vc.sorts.zero(et)
			vc.locs[x] = &Loc{kind: locLocal, alloc: x, rootTyp: et, typ: et}
			return
		}
		ref := vc.allocRef(st)
		vc.vals[x] = Val{T: ref, S: SInt, Typ: x.Type()}
		if _, isStruct := et.Underlying().(*types.Struct); isStruct {
			vc.locs[x] = &Loc{kind: locDeref, heap: "", ref: ref, rootTyp: et, typ: et}
		}
		ex.zeroInit(st, ref, et)
	case *ssa.Store:
		l := ex.locOf(x.Addr)
		v := ex.val(x.Val)
		ex.store(st, l, v.T)
	case *ssa.UnOp:
		switch x.Op {
		case token.MUL:
			l := ex.locOf(x.X)
			if l.kind == locDeref {
				if _, tracked := vc.locs[x.X]; !tracked {
					ex.nilCheck(l.ref, "deref "+ex.describe(x.X), x.Pos())
				}
			}
			ex.checkReadLoc(l, x.X, x.Pos())
			v := ex.load(st, l)
			ex.setVal(x, v.T)
		case token.NOT:
			ex.setVal(x, sNot(ex.val(x.X).T))
		case token.SUB:
			v := ex.val(x.X)
			if v.S == SFlt {
				ex.setVal(x, ex.uninterp("flt.neg", []Val{v}, SFlt))
				return
			}
			ii, _ := intInfoOf(x.Type())
			ex.setVal(x, ii.wrapAddSub("(- "+v.T+")"))
		case token.XOR:
			v := ex.val(x.X)
			ii, _ := intInfoOf(x.Type())
			if ii.signed {
				ex.setVal(x, "(- (- "+v.T+") 1)")
			} else {
				ex.setVal(x, "(- "+ii.maxStr()+" "+v.T+")")
			}
		case token.ARROW:
			ex.chanOp(st, x)
		default:
			ex.bail("unary op %s", x.Op)
		}
	case *ssa.BinOp:
		ex.binop(st, x)
	case *ssa.FieldAddr:
		vc.locs[x] = ex.fieldAddr(x)
	case *ssa.Field:
		sv := ex.val(x.X)
		sty := x.X.Type().Underlying().(*types.Struct)
		name := vc.sorts.structSort(x.X.Type(), sty)
		ex.setVal(x, "("+vc.sorts.structs[name].fields[x.Field]+" "+sv.T+")")
	case *ssa.IndexAddr:
		vc.locs[x] = ex.indexAddr(x)
	case *ssa.Index:
		idx := ex.val(x.Index).T
		switch t := x.X.Type().Underlying().(type) {
		case *types.Array:
			ex.boundsCheck(idx, fmt.Sprint(t.Len()), ex.describe(x.X), x.Pos())
			ex.setVal(x, "(select "+ex.val(x.X).T+" "+idx+")")
		case *types.Basic: // string
			sv := ex.val(x.X)
			ex.boundsCheck(idx, "(gs.len "+sv.T+")", ex.describe(x.X), x.Pos())
			ex.setVal(x, "(gs.at "+sv.T+" "+idx+")")
		default:
			ex.bail("Index on %s", x.X.Type())
		}
	case *ssa.Lookup:
		ex.lookup(st, x)
	case *ssa.Slice:
		ex.slice(st, x)
	case *ssa.MakeSlice:
		n := ex.val(x.Len).T
		c := ex.val(x.Cap).T
		pos := posStr(vc.eng.fset, x.Pos())
		vc.oblige("safety.makeslice", "safety", ex.cur, "(and (<= 0 "+n+") (<= "+n+" "+c+"))", "make: 0 <= len <= cap", pos)
		vc.assume(ex.cur, "(and (<= 0 "+n+") (<= "+n+" "+c+"))")
		et := x.Type().Underlying().(*types.Slice).Elem()
		if st0, isStruct := et.Underlying().(*types.Struct); !isStruct || st0.NumFields() > 0 {
			// a make that returns allocated at most maxAlloc bytes (2^48 on the 64-bit targets): beyond that the
			// runtime panics with "len out of range", i.e. the call does not return (partial correctness)
			vc.assume(ex.cur, "(<= "+c+" 281474976710656)")
			vc.eng.noteAssumption("a make([]T, n) that returns allocated at most 2^48 elements (runtime maxAlloc; a larger request panics, i.e. does not return)")
		}
		ref := vc.allocRef(st)
		hi := vc.elemHeap(et)
		vc.heapSet(st, hi, "(store "+vc.heapGet(st, hi)+" "+ref+" "+vc.constArray(hi.valSort, vc.sorts.zero(et))+")")
		ex.setVal(x, "(mkSlice "+ref+" 0 "+n+" "+c+")")
	case *ssa.MakeMap:
		mt := x.Type().Underlying().(*types.Map)
		has, _ := vc.mapHeaps(mt)
		ref := vc.allocRef(st)
		vc.heapSet(st, has, "(store "+vc.heapGet(st, has)+" "+ref+" ((as const (Array "+has.keySort+" Bool)) false))")
		ex.setVal(x, ref)
	case *ssa.MakeChan:
		// a channel is an opaque reference; only its identity (a fresh allocation) is modelled
		ex.setVal(x, vc.allocRef(st))
	case *ssa.MapUpdate:
		mt := x.Map.Type().Underlying().(*types.Map)
		has, val := vc.mapHeaps(mt)
		m := ex.val(x.Map).T
		k := ex.val(x.Key).T
		v := ex.val(x.Value).T
		vc.oblige("safety.nilmap["+ex.describe(x.Map)+"]", "safety", ex.cur, "(not (= "+m+" 0))", "assignment to entry in nil map", posStr(vc.eng.fset, x.Pos()))
		hh := vc.heapGet(st, has)
		vc.heapSet(st, has, "(store "+hh+" "+m+" (store (select "+hh+" "+m+") "+k+" true))")
		hv := vc.heapGet(st, val)
		vc.heapSet(st, val, "(store "+hv+" "+m+" (store (select "+hv+" "+m+") "+k+" "+v+"))")
	case *ssa.Convert:
		ex.convert(st, x)
	case *ssa.ChangeType:
		v := ex.val(x.X)
		vc.vals[x] = Val{T: v.T, S: v.S, Typ: x.Type()}
	case *ssa.ChangeInterface:
		v := ex.val(x.X)
		vc.vals[x] = Val{T: v.T, S: v.S, Typ: x.Type()}
	case *ssa.MakeInterface:
		v := ex.val(x.X)
		ex.setVal(x, vc.toIface(v, x.X.Type()))
	case *ssa.TypeAssert:
		ex.typeAssert(st, x)
	case *ssa.Extract:
		tv, ok := vc.tuples[x.Tuple]
		if !ok {
			ex.bail("extract from unknown tuple %s", x.Tuple.Name())
		}
		vc.vals[x] = tv[x.Index]
	case *ssa.Phi:
		// value by incoming edge
		ins := ex.incoming[ex.curBlock]
		var t string
		for i := len(x.Edges) - 1; i >= 0; i-- {
			pred := ex.curBlock.Preds[i]
			var cond string
			found := false
			for _, e := range ins {
				if e.from == pred {
					cond = e.cond
					found = true
				}
			}
			if !found {
				continue
			}
			v := ex.val(x.Edges[i]).T
			if t == "" {
				t = v
			} else {
				t = sIte(cond, v, t)
			}
		}
		if t == "" {
			ex.bail("phi without reachable edges")
		}
		ex.setVal(x, t)
	case *ssa.Call:
		ex.call(st, x)
	case *ssa.If:
		c := ex.val(x.Cond).T
		b := ex.curBlock
		ex.edge(st, b, b.Succs[0], sAnd(ex.cur, c))
		ex.edge(st, b, b.Succs[1], sAnd(ex.cur, sNot(c)))
	case *ssa.Jump:
		ex.edge(st, ex.curBlock, ex.curBlock.Succs[0], ex.cur)
	case *ssa.Return:
		ex.ret(st, x)
	case *ssa.Panic:
		if vc.contract != nil && vc.contract.NoPanic {
			vc.oblige("safety.panic", "safety", ex.cur, "false", "explicit panic reachable", posStr(vc.eng.fset, x.Pos()))
		}
		// path ends
	case *ssa.RunDefers:
	case *ssa.Defer:
		ex.bail("defer")
	case *ssa.Go:
		ex.bail("go statement")
	case *ssa.Send, *ssa.Select:
		ex.chanOp(st, ins)
	case *ssa.Range:
		ex.rangeInit(st, x)
	case *ssa.Next:
		ex.rangeNext(st, x)
	case *ssa.MakeClosure:
		fnv := x.Fn.(*ssa.Function)
		args := []string{}
		for _, b := range x.Bindings {
			if l, ok := vc.locs[b]; ok && l.kind == locLocal {
				ex.bail("closure captures local %s by reference", l.alloc.Comment)
			}
			args = append(args, ex.val(b).T)
		}
		n := vc.freshConst("closure_"+fnv.Name(), "Int")
		vc.vals[x] = Val{T: n, S: SInt, Typ: x.Type()}
		_ = args
	case *ssa.SliceToArrayPointer:
		ex.bail("slice to array pointer")
	default:
		ex.bail("instruction %T", ins)
	}
}

func (ex *exec) zeroInit(st *State, ref string, t types.Type) {
	vc := ex.vc
	switch u := t.Underlying().(type) {
	case *types.Struct:
		for i := 0; i < u.NumFields(); i++ {
			l := ex.structRefField(ref, t, i)
			if l.kind == locDeref && l.heap == "" {
				ex.zeroInit(st, l.ref, l.typ)
			} else {
				ex.store(st, l, vc.sorts.zero(l.typ))
			}
		}
	case *types.Array:
		hi := vc.elemHeap(u.Elem())
		vc.heapSet(st, hi, "(store "+vc.heapGet(st, hi)+" "+ref+" "+vc.constArray(hi.valSort, vc.sorts.zero(u.Elem()))+")")
	default:
		hi := vc.derefHeap(t)
		vc.heapSet(st, hi, "(store "+vc.heapGet(st, hi)+" "+ref+" "+vc.sorts.zero(t)+")")
	}
}

func (ex *exec) edge(st *State, from, to *ssa.BasicBlock, cond string) {
	vc := ex.vc
	if cond == "false" {
		return // statically dead edge (e.g. a constant debug flag): the target is not explored along it
	}
	if ex.isBackEdge(from, to) {
		li := ex.loopOf[to]
		if li == nil {
			ex.bail("back edge to non-header")
		}
		spec := ex.loopSpec(li)
		pos := posStr(vc.eng.fset, li.astNode.Pos())
		if spec == nil {
			for _, c := range ex.autoCands[li.header] {
				vc.oblige(c.name, "auto", cond, c.check(st), "inferred candidate invariant", pos)
			}
		}
		if spec != nil {
			env := ex.loopEnv(li, st)
			for i, c := range spec.Invariants {
				parts, err := env.splitGoal(c.E, clauseName(c, i))
				if err != nil {
					ex.bail("loop %d invariant: %v", li.ordinal, err)
				}
				for _, p := range parts {
					vc.oblige(fmt.Sprintf("loop%d.preserved[%s]", li.ordinal, p.name), "loop", cond, p.t, c.Text, pos)
				}
			}
			for _, c := range ex.autoCands[li.header] {
				vc.oblige(c.name, "auto", cond, c.check(st), "inferred candidate invariant", pos)
			}
			if pre := ex.loopPre[li.header]; pre != nil {
				base := ex.headSt[li.header]
				if b, ok := st.syncBase[li.header]; ok {
					base = b
				}
				ex.frameCheckAgainst(st, base, pre, spec.Modifies, cond, fmt.Sprintf("loop%d.frame", li.ordinal), pos, li)
			}
			if spec.Decreases != nil {
				v, err := env.term(spec.Decreases.E)
				if err != nil {
					ex.bail("loop %d decreases: %v", li.ordinal, err)
				}
				v0 := ex.variant0[li.header]
				vc.oblige(fmt.Sprintf("loop%d.decreases", li.ordinal), "loop", cond, "(and (<= 0 "+v0+") (< "+v.T+" "+v0+"))", spec.Decreases.Text, pos)
			}
		}
		return
	}
	ex.incoming[to] = append(ex.incoming[to], edgeIn{cond: cond, st: st.clone(), from: from})
}

func (ex *exec) uninterp(name string, args []Val, ret string) string {
	var sorts, terms []string
	for _, a := range args {
		sorts = append(sorts, a.S)
		terms = append(terms, a.T)
	}
	ex.vc.declFun(name, sorts, ret)
	return sApp(name, terms...)
}

func (ex *exec) binop(st *State, x *ssa.BinOp) {
	vc := ex.vc
	a, b := ex.val(x.X), ex.val(x.Y)
	pos := posStr(vc.eng.fset, x.Pos())
	switch a.S {
	case SStr:
		switch x.Op {
		case token.ADD:
			vc.usesStrings = true
			ex.setVal(x, "(gs.cat "+a.T+" "+b.T+")")
		case token.EQL:
			ex.setVal(x, sEq(a.T, b.T))
		case token.NEQ:
			ex.setVal(x, sNot(sEq(a.T, b.T)))
		case token.LSS:
			ex.setVal(x, "(gs.lt "+a.T+" "+b.T+")")
		case token.GTR:
			ex.setVal(x, "(gs.lt "+b.T+" "+a.T+")")
		case token.LEQ:
			ex.setVal(x, "(not (gs.lt "+b.T+" "+a.T+"))")
		case token.GEQ:
			ex.setVal(x, "(not (gs.lt "+a.T+" "+b.T+"))")
		default:
			ex.bail("string op %s", x.Op)
		}
		return
	case SBool:
		switch x.Op {
		case token.EQL:
			ex.setVal(x, sEq(a.T, b.T))
		case token.NEQ:
			ex.setVal(x, sNot(sEq(a.T, b.T)))
		case token.AND, token.LAND:
			ex.setVal(x, sAnd(a.T, b.T))
		case token.OR, token.LOR:
			ex.setVal(x, sOr(a.T, b.T))
		default:
			ex.bail("bool op %s", x.Op)
		}
		return
	case SFlt:
		switch x.Op {
		case token.EQL:
			ex.setVal(x, ex.uninterp("flt.eq", []Val{a, b}, SBool))
		case token.NEQ:
			ex.setVal(x, sNot(ex.uninterp("flt.eq", []Val{a, b}, SBool)))
		case token.LSS:
			ex.setVal(x, ex.uninterp("flt.lt", []Val{a, b}, SBool))
		case token.GTR:
			ex.setVal(x, ex.uninterp("flt.lt", []Val{b, a}, SBool))
		case token.LEQ:
			ex.setVal(x, ex.uninterp("flt.le", []Val{a, b}, SBool))
		case token.GEQ:
			ex.setVal(x, ex.uninterp("flt.le", []Val{b, a}, SBool))
		case token.ADD, token.SUB, token.MUL, token.QUO:
			ex.setVal(x, ex.uninterp("flt."+map[token.Token]string{token.ADD: "add", token.SUB: "sub", token.MUL: "mul", token.QUO: "div"}[x.Op]+"_"+typeKey(x.Type()), []Val{a, b}, SFlt))
		default:
			ex.bail("float op %s", x.Op)
		}
		return
	}
	if a.S != SInt {
		// comparison of refs, interfaces, structs
		switch x.Op {
		case token.EQL:
			ex.setVal(x, sEq(a.T, b.T))
		case token.NEQ:
			ex.setVal(x, sNot(sEq(a.T, b.T)))
		default:
			ex.bail("op %s on sort %s", x.Op, a.S)
		}
		return
	}
	ii, isInt := intInfoOf(x.X.Type())
	switch x.Op {
	case token.EQL:
		ex.setVal(x, sEq(a.T, b.T))
		return
	case token.NEQ:
		ex.setVal(x, sNot(sEq(a.T, b.T)))
		return
	case token.LSS:
		ex.setVal(x, "(< "+a.T+" "+b.T+")")
		return
	case token.LEQ:
		ex.setVal(x, "(<= "+a.T+" "+b.T+")")
		return
	case token.GTR:
		ex.setVal(x, "(> "+a.T+" "+b.T+")")
		return
	case token.GEQ:
		ex.setVal(x, "(>= "+a.T+" "+b.T+")")
		return
	}
	if !isInt {
		ex.bail("arithmetic on non-integer %s", x.X.Type())
	}
	switch x.Op {
	case token.ADD:
		ex.setVal(x, ii.wrapAddSub("(+ "+a.T+" "+b.T+")"))
	case token.SUB:
		ex.setVal(x, ii.wrapAddSub("(- "+a.T+" "+b.T+")"))
	case token.MUL:
		ex.setVal(x, ii.wrapFull("(* "+a.T+" "+b.T+")"))
	case token.QUO:
		vc.oblige("safety.divzero", "safety", ex.cur, "(not (= "+b.T+" 0))", "integer division by zero", pos)
		vc.assume(ex.cur, "(not (= "+b.T+" 0))")
		ex.setVal(x, ii.wrapAddSub("(tdiv "+a.T+" "+b.T+")"))
	case token.REM:
		vc.oblige("safety.divzero", "safety", ex.cur, "(not (= "+b.T+" 0))", "integer division by zero", pos)
		vc.assume(ex.cur, "(not (= "+b.T+" 0))")
		ex.setVal(x, "(trem "+a.T+" "+b.T+")")
	case token.SHL:
		si, _ := intInfoOf(x.Y.Type())
		if si.signed && si.bits != 0 {
			vc.oblige("safety.shift", "safety", ex.cur, "(>= "+b.T+" 0)", "negative shift count", pos)
			vc.assume(ex.cur, "(>= "+b.T+" 0)")
		}
		ex.setVal(x, sIte("(>= "+b.T+" "+fmt.Sprint(ii.bits)+")", "0", ii.wrapFull("(* "+a.T+" (pow2 "+b.T+"))")))
	case token.SHR:
		si, _ := intInfoOf(x.Y.Type())
		if si.signed && si.bits != 0 {
			vc.oblige("safety.shift", "safety", ex.cur, "(>= "+b.T+" 0)", "negative shift count", pos)
			vc.assume(ex.cur, "(>= "+b.T+" 0)")
		}
		over := "0"
		if ii.signed {
			over = "(ite (< " + a.T + " 0) (- 1) 0)"
		}
		ex.setVal(x, sIte("(>= "+b.T+" "+fmt.Sprint(ii.bits)+")", over, "(div "+a.T+" (pow2 "+b.T+"))"))
	case token.AND:
		if m, ok := constMask(x.Y); ok && !ii.signed {
			ex.setVal(x, "(mod "+a.T+" "+m+")")
		} else if m, ok := constMask(x.X); ok && !ii.signed {
			ex.setVal(x, "(mod "+b.T+" "+m+")")
		} else {
			ex.setVal(x, "(bitand "+a.T+" "+b.T+")")
			vc.eng.noteAssumption("bitwise & on symbolic operands is abstracted by an uninterpreted function with bound axioms (" + vc.fkey + ")")
		}
	case token.OR:
		ex.setVal(x, "(bitor "+a.T+" "+b.T+")")
		vc.eng.noteAssumption("bitwise | on symbolic operands is abstracted by an uninterpreted function with bound axioms (" + vc.fkey + ")")
	case token.XOR:
		ex.setVal(x, "(bitxor "+a.T+" "+b.T+")")
		vc.eng.noteAssumption("bitwise ^ is abstracted by an uninterpreted function (" + vc.fkey + ")")
	case token.AND_NOT:
		ex.setVal(x, "(- "+a.T+" (bitand "+a.T+" "+b.T+"))")
	default:
		ex.bail("binary op %s", x.Op)
	}
}

func constMask(v ssa.Value) (string, bool) {
	c, ok := v.(*ssa.Const)
	if !ok || c.Value == nil || c.Value.Kind() != constant.Int {
		return "", false
	}
	s := c.Value.ExactString()
	for k := 1; k <= 64; k++ {
		if decSub1(pow2str[k]) == s {
			return pow2str[k], true
		}
	}
	return "", false
}

func (ex *exec) convert(st *State, x *ssa.Convert) {
	vc := ex.vc
	v := ex.val(x.X)
	from, to := x.X.Type(), x.Type()
	fi, fok := intInfoOf(from)
	ti, tok := intInfoOf(to)
	switch {
	case fok && tok:
		if fi.bits != 0 && ti.bits >= fi.bits && (ti.signed == fi.signed || (ti.signed && ti.bits > fi.bits)) {
			ex.setVal(x, v.T) // value preserving
		} else {
			ex.setVal(x, ti.wrapFull(v.T))
		}
	case vc.sorts.sortOf(from) == SStr && vc.sorts.sortOf(to) == SStr:
		ex.setVal(x, v.T)
	case fok && vc.sorts.sortOf(to) == SStr:
		// string(rune/byte)
		ex.setVal(x, "(gs.ofbyte "+v.T+")")
	case vc.sorts.sortOf(from) == SSlice && vc.sorts.sortOf(to) == SStr:
		// string([]byte): abstract function of the contents
		et := from.Underlying().(*types.Slice).Elem()
		hi := vc.elemHeap(et)
		vc.declFun("gs.frombytes", []string{"(Array Int Int)", "Int", "Int"}, SStr)
		if !vc.declared["ax.frombytes"] {
			vc.declared["ax.frombytes"] = true
			vc.decls = append(vc.decls, "(assert (forall ((a (Array Int Int)) (o Int) (n Int)) (! (=> (>= n 0) (= (gs.len (gs.frombytes a o n)) n)) :pattern ((gs.frombytes a o n)))))")
			vc.decls = append(vc.decls, "(assert (forall ((a (Array Int Int)) (o Int) (n Int) (i Int)) (! (=> (and (<= 0 i) (< i n)) (= (gs.at (gs.frombytes a o n) i) (select a (+ o i)))) :pattern ((gs.at (gs.frombytes a o n) i)))))")
		}
		ex.setVal(x, "(gs.frombytes (select "+vc.heapGet(st, hi)+" (sarr "+v.T+")) (soff "+v.T+") (slen "+v.T+"))")
	case vc.sorts.sortOf(from) == SStr && vc.sorts.sortOf(to) == SSlice:
		et := to.Underlying().(*types.Slice).Elem()
		hi := vc.elemHeap(et)
		ref := vc.allocRef(st)
		arr := vc.freshConst("bytes", "(Array Int Int)")
		vc.assume(ex.cur, "(forall ((i Int)) (! (=> (and (<= 0 i) (< i (gs.len "+v.T+"))) (= (select "+arr+" i) (gs.at "+v.T+" i))) :pattern ((select "+arr+" i))))")
		vc.heapSet(st, hi, "(store "+vc.heapGet(st, hi)+" "+ref+" "+arr+")")
		ex.setVal(x, "(mkSlice "+ref+" 0 (gs.len "+v.T+") (gs.len "+v.T+"))")
	case vc.sorts.sortOf(from) == SFlt || vc.sorts.sortOf(to) == SFlt:
		ex.setVal(x, ex.uninterp("conv_"+typeKey(from)+"_"+typeKey(to), []Val{v}, vc.sorts.sortOf(to)))
		if tok {
			vc.assume(ex.cur, ti.inRange(vc.vals[x].T))
		}
	case vc.sorts.sortOf(from) == SInt && vc.sorts.sortOf(to) == SInt:
		ex.setVal(x, v.T) // pointer conversions
	default:
		ex.bail("conversion %s -> %s", from, to)
	}
}

func (ex *exec) slice(st *State, x *ssa.Slice) {
	vc := ex.vc
	pos := posStr(vc.eng.fset, x.Pos())
	what := ex.describe(x.X)
	var lo, hi string
	if x.Low != nil {
		lo = ex.val(x.Low).T
	} else {
		lo = "0"
	}
	switch t := x.X.Type().Underlying().(type) {
	case *types.Basic: // string
		sv := ex.val(x.X)
		if x.High != nil {
			hi = ex.val(x.High).T
		} else {
			hi = "(gs.len " + sv.T + ")"
		}
		g := "(and (<= 0 " + lo + ") (<= " + lo + " " + hi + ") (<= " + hi + " (gs.len " + sv.T + ")))"
		vc.oblige("safety.slice["+what+"]", "safety", ex.cur, g, "string slice bounds", pos)
		vc.assume(ex.cur, g)
		ex.setVal(x, "(gs.sub "+sv.T+" "+lo+" "+hi+")")
	case *types.Slice:
		sv := ex.val(x.X)
		if x.High != nil {
			hi = ex.val(x.High).T
		} else {
			hi = "(slen " + sv.T + ")"
		}
		capT := "(scap " + sv.T + ")"
		newcap := "(- " + capT + " " + lo + ")"
		g := "(and (<= 0 " + lo + ") (<= " + lo + " " + hi + ") (<= " + hi + " " + capT + "))"
		if x.Max != nil {
			mx := ex.val(x.Max).T
			g = "(and (<= 0 " + lo + ") (<= " + lo + " " + hi + ") (<= " + hi + " " + mx + ") (<= " + mx + " " + capT + "))"
			newcap = "(- " + mx + " " + lo + ")"
		}
		vc.oblige("safety.slice["+what+"]", "safety", ex.cur, g, "slice bounds", pos)
		vc.assume(ex.cur, g)
		ex.setVal(x, "(mkSlice (sarr "+sv.T+") (+ (soff "+sv.T+") "+lo+") (- "+hi+" "+lo+") "+newcap+")")
	case *types.Pointer:
		at := t.Elem().Underlying().(*types.Array)
		n := fmt.Sprint(at.Len())
		if x.High != nil {
			hi = ex.val(x.High).T
		} else {
			hi = n
		}
		var ref string
		if base, ok := vc.locs[x.X]; ok {
			if base.kind != locDeref {
				ex.bail("slice of local array")
			}
			ref = base.ref
		} else {
			ref = ex.val(x.X).T
		}
		g := "(and (<= 0 " + lo + ") (<= " + lo + " " + hi + ") (<= " + hi + " " + n + "))"
		vc.oblige("safety.slice["+what+"]", "safety", ex.cur, g, "array slice bounds", pos)
		vc.assume(ex.cur, g)
		ex.setVal(x, "(mkSlice "+ref+" "+lo+" (- "+hi+" "+lo+") (- "+n+" "+lo+"))")
	default:
		ex.bail("slice of %s", x.X.Type())
	}
}

func (ex *exec) lookup(st *State, x *ssa.Lookup) {
	vc := ex.vc
	switch t := x.X.Type().Underlying().(type) {
	case *types.Basic:
		sv := ex.val(x.X)
		idx := ex.val(x.Index).T
		ex.boundsCheck(idx, "(gs.len "+sv.T+")", ex.describe(x.X), x.Pos())
		ex.setVal(x, "(gs.at "+sv.T+" "+idx+")")
	case *types.Map:
		has, val := vc.mapHeaps(t)
		m := ex.val(x.X).T
		k := ex.val(x.Index).T
		present := "(select (select " + vc.heapGet(st, has) + " " + m + ") " + k + ")"
		stored := "(select (select " + vc.heapGet(st, val) + " " + m + ") " + k + ")"
		v := sIte(sAnd("(not (= "+m+" 0))", present), stored, vc.sorts.zero(t.Elem()))
		if x.CommaOk {
			vs := vc.sorts.sortOf(t.Elem())
			vc.tuples[x] = []Val{{T: vc.define("mv", vs, v), S: vs, Typ: t.Elem()}, {T: vc.define("mok", SBool, sAnd("(not (= "+m+" 0))", present)), S: SBool, Typ: types.Typ[types.Bool]}}
		} else {
			ex.setVal(x, v)
		}
	default:
		ex.bail("lookup on %s", x.X.Type())
	}
}

func (ex *exec) typeAssert(st *State, x *ssa.TypeAssert) {
	vc := ex.vc
	v := ex.val(x.X)
	if _, isIface := x.AssertedType.Underlying().(*types.Interface); isIface {
		ex.bail("type assertion to interface type %s", x.AssertedType)
	}
	tid := fmt.Sprint(vc.typeID(x.AssertedType))
	ok := "(= (itid " + v.T + ") " + tid + ")"
	val := vc.fromIface(v.T, x.AssertedType)
	vs := vc.sorts.sortOf(x.AssertedType)
	if x.CommaOk {
		vc.tuples[x] = []Val{{T: vc.define("ta", vs, sIte(ok, val, vc.sorts.zero(x.AssertedType))), S: vs, Typ: x.AssertedType}, {T: ok, S: SBool, Typ: types.Typ[types.Bool]}}
		return
	}
	vc.oblige("safety.typeassert["+ex.describe(x.X)+"]", "safety", ex.cur, ok, "type assertion to "+types.TypeString(x.AssertedType, nil), posStr(vc.eng.fset, x.Pos()))
	vc.assume(ex.cur, ok)
	ex.setVal(x, val)
	if ii, isInt := intInfoOf(x.AssertedType); isInt {
		vc.assume(ex.cur, ii.inRange(vc.vals[x].T))
	}
}

// chanOp: a channel send/receive inside a function with a `sync preserves` clause is a synchronisation point:
// the whole heap is havocked except the listed locations (which only this goroutine writes).
type syncKeep struct {
	hi  *heapInfo
	ref string
	sl   string // for element ranges: slice term (evaluated before)
	all  bool
	each bool   // s[*].f: ref mentions the bound index i! (field f of every pointed-to struct)
	trig string // trigger term of the quantified keep
}

func (ex *exec) syncKeeps(before *State) []syncKeep {
	vc := ex.vc
	fc := vc.contract
	env := ex.newEnv(before, vc.entry)
	var keeps []syncKeep
	for _, a := range fc.SyncPreserves {
		switch x := a.E.(type) {
		case *SSelect:
			if ix, isIdx := x.X.(*SIndex); isIdx && ix.I == nil {
				// s[*].f : field f of every struct the elements of slice s point to
				sl, err := env.term(ix.X)
				if err != nil {
					ex.bail("sync preserves %s: %v", a.Text, err)
				}
				st0, ok := sl.Typ.Underlying().(*types.Slice)
				if sl.S != SSlice || !ok {
					ex.bail("sync preserves %s: not a slice", a.Text)
				}
				if _, isPtr := st0.Elem().Underlying().(*types.Pointer); !isPtr {
					ex.bail("sync preserves %s: elements are not pointers", a.Text)
				}
				eh := vc.elemHeap(st0.Elem())
				elem := Val{T: "(select (select " + vc.heapGet(before, eh) + " (sarr " + sl.T + ")) i!)", S: vc.sorts.sortOf(st0.Elem()), Typ: st0.Elem()}
				hi, ref, err := ex.fieldCell(env, elem, x.Sel)
				if err != nil {
					ex.bail("sync preserves %s: %v", a.Text, err)
				}
				keeps = append(keeps, syncKeep{hi: hi, ref: ref, sl: sl.T, each: true, trig: elem.T})
				continue
			}
			b, err := env.term(x.X)
			if err != nil {
				ex.bail("sync preserves %s: %v", a.Text, err)
			}
			hi, ref, err := ex.fieldCell(env, b, x.Sel)
			if err != nil {
				ex.bail("sync preserves %s: %v", a.Text, err)
			}
			keeps = append(keeps, syncKeep{hi: hi, ref: ref})
		case *SCall:
			if x.Fun != "allfields" {
				ex.bail("sync preserves %s: unsupported", a.Text)
			}
			b, err := env.term(x.Args[0])
			if err != nil {
				ex.bail("sync preserves %s: %v", a.Text, err)
			}
			if err := ex.allFieldCells(env, b, func(hi *heapInfo, ref string) { keeps = append(keeps, syncKeep{hi: hi, ref: ref}) }); err != nil {
				ex.bail("sync preserves %s: %v", a.Text, err)
			}
		case *SIndex:
			b, err := env.term(x.X)
			if err != nil {
				ex.bail("sync preserves %s: %v", a.Text, err)
			}
			if b.S != SSlice || x.I != nil {
				ex.bail("sync preserves %s: only whole slices x.f[*]", a.Text)
			}
			keeps = append(keeps, syncKeep{hi: vc.elemHeap(b.Typ.Underlying().(*types.Slice).Elem()), sl: b.T, all: true})
		default:
			ex.bail("sync preserves %s: unsupported", a.Text)
		}
	}
	return keeps
}

// applyKeeps: the kept locations have the same value in st as in before (heap maps in skip are excluded).
func (ex *exec) applyKeeps(keeps []syncKeep, before, st *State, skip map[string]bool) {
	vc := ex.vc
	for _, k := range keeps {
		if skip[k.hi.name] {
			continue
		}
		oldH := vc.heapGet(before, k.hi)
		newH := vc.heapGet(st, k.hi)
		if k.each {
			vc.addLine(fmt.Sprintf("(assert (=> %s (forall ((i! Int)) (! (=> (and (<= (soff %s) i!) (< i! (+ (soff %s) (slen %s)))) (= (select %s %s) (select %s %s))) :pattern (%s)))))",
				ex.cur, k.sl, k.sl, k.sl, newH, k.ref, oldH, k.ref, k.trig))
			continue
		}
		if k.all {
			vc.addLine(fmt.Sprintf("(assert (=> %s (forall ((i! Int)) (! (=> (and (<= (soff %s) i!) (< i! (+ (soff %s) (slen %s)))) (= (select (select %s (sarr %s)) i!) (select (select %s (sarr %s)) i!))) :pattern ((select (select %s (sarr %s)) i!))))))",
				ex.cur, k.sl, k.sl, k.sl, newH, k.sl, oldH, k.sl, newH, k.sl))
		} else {
			vc.assume(ex.cur, sEq("(select "+newH+" "+k.ref+")", "(select "+oldH+" "+k.ref+")"))
		}
	}
}

func (ex *exec) chanOp(st *State, ins ssa.Instruction) {
	vc := ex.vc
	fc := vc.contract
	if fc == nil || !fc.HasSync {
		ex.bail("channel operation")
	}
	// the segment that ends here is checked against the modifies clause of every enclosing loop that declares one,
	// before the other goroutines get their say
	var segLoops []*loopInfo
	if ex.curBlock != nil {
		for _, li := range ex.loops {
			if li.blocks[ex.curBlock] {
				if sp := ex.loopSpec(li); sp != nil && sp.HasModifies && ex.loopPre[li.header] != nil {
					if _, ok := st.syncBase[li.header]; ok {
						segLoops = append(segLoops, li)
					}
				}
			}
		}
	}
	for _, li := range segLoops {
		ex.frameCheckAgainst(st, st.syncBase[li.header], ex.loopPre[li.header], ex.loopSpec(li).Modifies, ex.cur, fmt.Sprintf("loop%d.frame@sync", li.ordinal), posStr(vc.eng.fset, ins.Pos()), li)
	}
	before := st.clone()
	keeps := ex.syncKeeps(before)
	vc.havocAllHeap(st)
	ex.applyKeeps(keeps, before, st, nil)
	if len(segLoops) > 0 {
		saved := st.syncBase
		st.syncBase = nil
		snap := st.clone()
		st.syncBase = map[*ssa.BasicBlock]*State{}
		for k, v := range saved {
			st.syncBase[k] = v
		}
		for _, li := range segLoops {
			st.syncBase[li.header] = snap
		}
	}
	// value received
	if u, ok := ins.(*ssa.UnOp); ok {
		t := u.Type()
		if u.CommaOk {
			ex.bail("comma-ok receive")
		}
		n := vc.freshConst("recv", vc.sorts.sortOf(t))
		vc.assume("true", vc.sorts.typeInv(t, n, st.nextRef))
		vc.vals[u] = Val{T: n, S: vc.sorts.sortOf(t), Typ: t}
	}
}

// Range/Next over maps and strings: an over-approximation that is sound for safety, frame and read obligations:
// each Next yields an arbitrary key that is present in the map (the order, and that every key is visited exactly
// once, are not modelled; functional properties of map iterations are outside the subset).
func (ex *exec) rangeInit(st *State, x *ssa.Range) {
	v := ex.val(x.X)
	ex.vc.vals[x] = Val{T: v.T, S: v.S, Typ: x.X.Type()}
	if mt, ok := x.X.Type().Underlying().(*types.Map); ok && ex.useVisited {
		vc := ex.vc
		has, _ := vc.mapHeaps(mt)
		ks := vc.sorts.sortOf(mt.Key())
		ex.rangeRow[x] = vc.define("range_row0", "(Array "+ks+" Bool)", "(select "+vc.heapGet(st, has)+" "+v.T+")")
		vc.heapSet(st, ex.visitedOf(x), "((as const (Array "+ks+" Bool)) false)")
	}
}

// visitedOf: the ghost set of keys already produced by this map iteration.
func (ex *exec) visitedOf(x *ssa.Range) *heapInfo {
	n, ok := ex.rangeOrd[x]
	if !ok {
		// ordinal by source position among the map iterations of the function
		var all []*ssa.Range
		for _, b := range ex.fn.Blocks {
			for _, ins := range b.Instrs {
				if r, ok := ins.(*ssa.Range); ok {
					if _, isMap := r.X.Type().Underlying().(*types.Map); isMap {
						all = append(all, r)
					}
				}
			}
		}
		sort.Slice(all, func(i, j int) bool { return all[i].Pos() < all[j].Pos() })
		for i, r := range all {
			ex.rangeOrd[r] = i + 1
		}
		n = ex.rangeOrd[x]
	}
	mt := x.X.Type().Underlying().(*types.Map)
	return ex.vc.visitedHeap(n, ex.vc.sorts.sortOf(mt.Key()))
}

// rangeOfLoop: the map iteration that drives the loop (its Next is in the loop's header block).
func (ex *exec) rangeOfLoop(li *loopInfo) *ssa.Range {
	for _, ins := range li.header.Instrs {
		if nx, ok := ins.(*ssa.Next); ok {
			if r, ok := nx.Iter.(*ssa.Range); ok {
				if _, isMap := r.X.Type().Underlying().(*types.Map); isMap {
					return r
				}
			}
		}
	}
	return nil
}

// loopGhosts: engine-level ghost state a loop body changes (havocked at the loop head, constrained by invariants).
func (ex *exec) loopGhosts(li *loopInfo) []*heapInfo {
	var out []*heapInfo
	seen := map[string]bool{}
	calls := false
	for b := range li.blocks {
		for _, ins := range b.Instrs {
			switch x := ins.(type) {
			case *ssa.Next:
				if r, ok := x.Iter.(*ssa.Range); ok && ex.useVisited {
					if _, isMap := r.X.Type().Underlying().(*types.Map); isMap {
						hi := ex.visitedOf(r)
						if !seen[hi.name] {
							seen[hi.name] = true
							out = append(out, hi)
						}
					}
				}
			case *ssa.Call:
				if _, isB := x.Call.Value.(*ssa.Builtin); !isB {
					calls = true
				}
			}
		}
	}
	if calls && ex.useEval {
		out = append(out, ex.vc.evalHeaps()...)
	}
	sort.Slice(out, func(i, j int) bool { return out[i].name < out[j].name })
	return out
}
func (ex *exec) rangeNext(st *State, x *ssa.Next) {
	vc := ex.vc
	rng, ok := x.Iter.(*ssa.Range)
	if !ok {
		ex.bail("next on unknown iterator")
	}
	it := ex.val(rng)
	okc := vc.freshConst("next_ok", SBool)
	boolT := types.Typ[types.Bool]
	switch t := rng.X.Type().Underlying().(type) {
	case *types.Map:
		has, val := vc.mapHeaps(t)
		if ex.readSet != nil {
			for _, h := range []*heapInfo{has, val} {
				vc.oblige("reads["+strings.TrimPrefix(h.name, "H")+":range]", "frame", ex.cur, ex.readSet.covers(h.name, locField, it.T), "map iteration outside the declared reads footprint", posStr(vc.eng.fset, x.Pos()))
			}
		}
		ks := vc.sorts.sortOf(t.Key())
		k := vc.freshConst("next_k", ks)
		vc.assume(ex.cur, vc.sorts.typeInv(t.Key(), k, st.nextRef))
		present := "(select (select " + vc.heapGet(st, has) + " " + it.T + ") " + k + ")"
		vc.assume(ex.cur, sImp(okc, sAnd("(not (= "+it.T+" 0))", present)))
		v := vc.define("next_v", vc.sorts.sortOf(t.Elem()), "(select (select "+vc.heapGet(st, val)+" "+it.T+") "+k+")")
		vc.tuples[x] = []Val{{T: okc, S: SBool, Typ: boolT}, {T: k, S: ks, Typ: t.Key()}, {T: v, S: vc.sorts.sortOf(t.Elem()), Typ: t.Elem()}}
		if row0, tracked := ex.rangeRow[rng]; tracked && ex.useVisited {
			// exact iteration for a map whose key set is the same as when the iteration started: a key is produced
			// at most once, and the iteration ends only when every key has been produced. (Go: an entry removed
			// before it is reached is not produced, an entry created meanwhile may or may not be; with the key set
			// unchanged neither happens. Not distinguished: a body that removes an unvisited entry and re-creates it
			// within one iteration - listed among the assumptions.)
			vh := ex.visitedOf(rng)
			vis := vc.heapGet(st, vh)
			row := "(select " + vc.heapGet(st, has) + " " + it.T + ")"
			vc.assume(ex.cur, sImp(okc, "(not (select "+vis+" "+k+"))"))
			vc.assume(ex.cur, sImp(sAnd("(not "+okc+")", sEq(row, row0)),
				"(forall ((k! "+ks+")) (! (=> (select "+row0+" k!) (select "+vis+" k!)) :pattern ((select "+row0+" k!)) :pattern ((select "+vis+" k!))))"))
			vc.heapSet(st, vh, "(ite "+okc+" (store "+vis+" "+k+" true) "+vis+")")
			vc.eng.noteAssumption("map iteration modelled exactly while the key set is unchanged (visited set); delete-and-recreate of an unvisited key inside one iteration is not distinguished")
		}
	case *types.Basic:
		idx := vc.freshConst("next_i", SInt)
		r := vc.freshConst("next_r", SInt)
		vc.assume(ex.cur, sImp(okc, "(and (<= 0 "+idx+") (< "+idx+" (gs.len "+it.T+")) (<= 0 "+r+") (<= "+r+" 1114111))"))
		vc.tuples[x] = []Val{{T: okc, S: SBool, Typ: boolT}, {T: idx, S: SInt, Typ: types.Typ[types.Int]}, {T: r, S: SInt, Typ: types.Typ[types.Rune]}}
	default:
		ex.bail("range over %s", rng.X.Type())
	}
}

// ---------------------------------------------------------------------------
// Return: ghost exits, postconditions, frame

func (ex *exec) ret(st *State, x *ssa.Return) {
	vc := ex.vc
	ex.retCount++
	fc := vc.contract
	if fc == nil {
		return
	}
	st = st.clone()
	var results []Val
	for _, r := range x.Results {
		results = append(results, ex.val(r))
	}
	pos := posStr(vc.eng.fset, x.Pos())
	env := ex.newEnv(st, vc.entry)
	env.results = results
	// ghost updates at exit (simultaneous; evaluated in the pre-update final state)
	ex.applyGhostExits(env, fc, st, ex.cur)
	env = ex.newEnv(st, vc.entry)
	env.results = results
	for i, c := range fc.Ensures {
		parts, err := env.splitGoal(c.E, clauseName(c, i))
		if err != nil {
			ex.bail("ensures (line %d): %v", c.Line, err)
		}
		for _, p := range parts {
			vc.oblige(fmt.Sprintf("ensures[%s]", p.name), "ensures", ex.cur, p.t, c.Text, pos)
		}
	}
	if fc.HasAssigns || fc.Pure {
		ex.frameCheck(st, fc, pos)
	}
}

func (ex *exec) applyGhostExits(env *SpecEnv, fc *FuncContract, st *State, cond string) {
	vc := ex.vc
	if len(fc.GhostExits) == 0 {
		return
	}
	type upd struct {
		hi   *heapInfo
		term string
	}
	var upds []upd
	for _, ge := range fc.GhostExits {
		sel, ok := ge.Target.(*SSelect)
		if !ok {
			ex.bail("ghost exit: target must be x.field")
		}
		base, err := env.term(sel.X)
		if err != nil {
			ex.bail("ghost exit: %v", err)
		}
		hi, err := env.ghostHeapFor(base, sel.Sel)
		if err != nil {
			ex.bail("ghost exit: %v", err)
		}
		// new ghost value: array comprehension over ge.Vars
		cur := "(select " + vc.heapGet(st, hi) + " " + base.T + ")"
		newArr := vc.freshConst("ghost_"+sel.Sel, hi.valSort)
		sub := env.child()
		var binders []string
		selT := newArr
		gt := hi.valType
		for _, v := range ge.Vars {
			ty, err := vc.eng.resolveType(v.Type, fc.Pkg)
			if err != nil {
				ex.bail("ghost exit var: %v", err)
			}
			vc.nfresh++
			bn := fmt.Sprintf("%s!q%d", sanitize(v.Name), vc.nfresh)
			sub.vars[v.Name] = Val{T: bn, S: vc.sorts.sortOf(ty), Typ: ty}
			binders = append(binders, "("+bn+" "+vc.sorts.sortOf(ty)+")")
			selT = "(select " + selT + " " + bn + ")"
			if m, ok := gt.Underlying().(*types.Map); ok {
				gt = m.Elem()
			}
		}
		vc.quantDepth++
		val, err := sub.term(ge.Val)
		vc.quantDepth--
		if err != nil {
			ex.bail("ghost exit value: %v", err)
		}
		_ = cur
		if len(binders) == 0 {
			vc.assume(cond, sEq(newArr, val.T))
		} else {
			vc.addLine("(assert "+sImp(cond, "(forall ("+strings.Join(binders, " ")+") (! (= "+selT+" "+val.T+") :pattern ("+selT+")))")+")")
		}
		upds = append(upds, upd{hi, "(store " + vc.heapGet(st, hi) + " " + base.T + " " + newArr + ")"})
	}
	for _, u := range upds {
		vc.heapSet(st, u.hi, u.term)
	}
}

// ---------------------------------------------------------------------------
// Inferred loop invariants (Houdini candidates)

type autoCand struct {
	name  string
	check func(st *State) string // formula over a state
}

func (ex *exec) autoCandidates(li *loopInfo, pre, st *State, modLocals []*ssa.Alloc) {
	vc := ex.vc
	var ints, strs []*ssa.Alloc
	for _, a := range modLocals {
		if _, live := pre.locals[a]; !live {
			continue
		}
		if a.Comment == "" || a.Comment == "rangeindex" {
			continue
		}
		et := a.Type().(*types.Pointer).Elem()
		if ii, ok := intInfoOf(et); ok && ii.bits != 0 {
			ints = append(ints, a)
		} else if vc.sorts.sortOf(et) == SStr {
			strs = append(strs, a)
		}
	}
	var cands []autoCand
	add := func(kind string, names string, f func(st *State) string) {
		name := fmt.Sprintf("loop%d.auto[%s:%s]", li.ordinal, kind, names)
		if vc.autoDrop[vc.fkey+vc.tag+"#"+name] {
			return
		}
		cands = append(cands, autoCand{name, f})
	}
	cur := func(st *State, a *ssa.Alloc) string { return st.locals[a] }
	for _, a := range ints {
		a := a
		p := pre.locals[a]
		up, down := ex.updateDirections(li, a)
		if !down {
			add("ge", a.Comment, func(s *State) string { return "(>= " + cur(s, a) + " " + p + ")" })
		}
		if !up {
			add("le", a.Comment, func(s *State) string { return "(<= " + cur(s, a) + " " + p + ")" })
		}
	}
	// upper bound of a counter from the loop condition  i < B  (B not changed by the loop):  i <= max(pre(i), B)
	if iff, ok := li.header.Instrs[len(li.header.Instrs)-1].(*ssa.If); ok {
		if bo, ok := iff.Cond.(*ssa.BinOp); ok && (bo.Op == token.LSS || bo.Op == token.LEQ) {
			if ld, ok := bo.X.(*ssa.UnOp); ok && ld.Op == token.MUL {
				if a, ok := ld.X.(*ssa.Alloc); ok {
					isMod := func(x *ssa.Alloc) bool {
						for _, m := range modLocals {
							if m == x {
								return true
							}
						}
						return false
					}
					bound := ""
					switch y := bo.Y.(type) {
					case *ssa.Const:
						bound = ex.constVal(y).T
					case *ssa.UnOp:
						if b, ok := y.X.(*ssa.Alloc); ok && y.Op == token.MUL && !b.Heap && !isMod(b) {
							bound = pre.locals[b]
						}
					default:
						if v, ok := vc.vals[bo.Y]; ok && !li.blocks[bo.Y.(ssa.Instruction).Block()] {
							bound = v.T
						}
					}
					up, down := ex.updateDirections(li, a)
					pa, live := pre.locals[a]
					if bound != "" && live && isMod(a) && up && !down {
						if bo.Op == token.LEQ {
							bound = "(+ " + bound + " 1)"
						}
						add("ub", a.Comment, func(s *State) string {
							return "(<= " + cur(s, a) + " (ite (>= " + pa + " " + bound + ") " + pa + " " + bound + "))"
						})
					}
				}
			}
		}
	}
	for _, sv := range strs {
		sv := sv
		p := pre.locals[sv]
		add("bin", sv.Comment, func(s *State) string { return sImp("(gs.isbin "+p+")", "(gs.isbin "+cur(s, sv)+")") })
		add("len", sv.Comment, func(s *State) string { return "(>= (gs.len " + cur(s, sv) + ") (gs.len " + p + "))" })
		add("prefix", sv.Comment, func(s *State) string { return "(= (gs.sub " + cur(s, sv) + " 0 (gs.len " + p + ")) " + p + ")" })
		for _, a := range ints {
			a := a
			pa := pre.locals[a]
			if up, down := ex.updateDirections(li, a); !up || down {
				continue // only counters that go up can be in step with a growing string
			}
			add("diff", sv.Comment+","+a.Comment, func(s *State) string {
				return "(= (- (gs.len " + cur(s, sv) + ") " + cur(s, a) + ") (- (gs.len " + p + ") " + pa + "))"
			})
		}
	}
	ex.autoCands[li.header] = cands
	for _, c := range cands {
		vc.comment("assume candidate " + c.name)
		vc.assume(ex.cur, c.check(st))
	}
}

// houdiniTimeoutS: per-candidate solver timeout; raised for the second-chance pass of a check.
var houdiniTimeoutS = 8

// verifyHoudini runs the generator until the set of inferred candidate invariants is inductive.
func (eng *Engine) verifyHoudini(run func(drop map[string]bool) *VC) *VC {
	drop := map[string]bool{}
	var vc *VC
	for round := 0; round < 5; round++ {
		vc = run(drop)
		if vc.outside != "" {
			return vc
		}
		var autos []*Obligation
		for _, o := range vc.obls {
			if o.Kind == "auto" {
				autos = append(autos, o)
			}
		}
		if len(autos) == 0 {
			return vc
		}
		scratch := scratchDir()
		solveAll(autos, solveOpts{timeoutS: houdiniTimeoutS, scratch: scratch, workers: 12})
		os.RemoveAll(scratch)
		changed := false
		for _, o := range autos {
			if !o.ok() {
				b := baseName(o.Name)
				if !drop[b] {
					drop[b] = true
					changed = true
					if os.Getenv("BMVERIF_DEBUG_HOUDINI") != "" {
						fmt.Fprintf(os.Stderr, "houdini: drop %s (%s)\n", b, o.Result)
					}
				}
			}
		}
		if !changed {
			return vc
		}
	}
	return vc
}

func (ex *exec) checkReadLoc(l *Loc, addr ssa.Value, pos token.Pos) {
	if ex.readSet == nil {
		return
	}
	if l.kind == locDeref && l.heap == "" {
		// whole struct through a pointer: every field cell
		if sty, ok := l.typ.Underlying().(*types.Struct); ok {
			for i := 0; i < sty.NumFields(); i++ {
				fl := ex.structRefField(l.ref, l.typ, i)
				ex.checkReadLoc(fl, addr, pos)
			}
		} else if at, ok := l.typ.Underlying().(*types.Array); ok {
			hi := ex.vc.elemHeap(at.Elem())
			ex.checkRead(&Loc{kind: locElem, heap: hi.name, ref: l.ref}, ex.describe(addr), pos)
		}
		return
	}
	ex.checkRead(l, ex.describe(addr), pos)
}

// updateDirections: does the loop contain an update of local a that can increase it / decrease it?
// (x = x + c with a positive constant only increases, x = x - c only decreases; anything else may do both.)
func (ex *exec) updateDirections(li *loopInfo, a *ssa.Alloc) (up, down bool) {
	for b := range li.blocks {
		for _, ins := range b.Instrs {
			st, ok := ins.(*ssa.Store)
			if !ok || st.Addr != ssa.Value(a) {
				continue
			}
			bo, ok := st.Val.(*ssa.BinOp)
			if !ok {
				return true, true
			}
			ld, ok := bo.X.(*ssa.UnOp)
			c, okc := bo.Y.(*ssa.Const)
			if !ok || !okc || ld.Op != token.MUL || ld.X != ssa.Value(a) || c.Value == nil || c.Value.Kind() != constant.Int {
				return true, true
			}
			sign := constant.Sign(c.Value)
			switch {
			case bo.Op == token.ADD && sign > 0, bo.Op == token.SUB && sign < 0:
				up = true
			case bo.Op == token.ADD && sign < 0, bo.Op == token.SUB && sign > 0:
				down = true
			case sign == 0:
			default:
				return true, true
			}
		}
	}
	return
}

// coverObligations: one obligation per field of a struct that a contract declares to cover.
func (ex *exec) coverObligations() {
	vc := ex.vc
	fc := vc.contract
	for _, cs := range fc.Covers {
		t, err := vc.eng.resolveType(cs.Type, fc.Pkg)
		if err != nil {
			ex.bail("covers: %v", err)
		}
		st, ok := t.Underlying().(*types.Struct)
		if !ok {
			ex.bail("covers: %s is not a struct", cs.Type)
		}
		var fields []string
		var walk func(s *types.Struct)
		walk = func(s *types.Struct) {
			for i := 0; i < s.NumFields(); i++ {
				f := s.Field(i)
				if inner, ok := f.Type().Underlying().(*types.Struct); ok && f.Embedded() {
					walk(inner)
					continue
				}
				fields = append(fields, f.Name())
			}
		}
		walk(st)
		except := map[string]bool{}
		for _, e := range cs.Except {
			except[e] = true
		}
		for _, f := range fields {
			if except[f] {
				vc.eng.noteAssumption(fmt.Sprintf("field %s.%s declared transient (not persisted) in the contract of %s", cs.Type, f, vc.fkey))
				continue
			}
			mentioned := false
			needle := cs.Prefix + "." + f
			for _, c := range fc.Ensures {
				txt := c.Text
				for idx := strings.Index(txt, needle); idx >= 0; {
					end := idx + len(needle)
					if end >= len(txt) || !(txt[end] == '_' || txt[end] >= 'a' && txt[end] <= 'z' || txt[end] >= 'A' && txt[end] <= 'Z' || txt[end] >= '0' && txt[end] <= '9') {
						mentioned = true
						break
					}
					nxt := strings.Index(txt[end:], needle)
					if nxt < 0 {
						break
					}
					idx = end + nxt
				}
			}
			goal := "false"
			if mentioned {
				goal = "true"
			}
			vc.oblige("covers["+cs.Type+"."+f+"]", "ensures", "true", goal, "every field of "+cs.Type+" is constrained by a postcondition ("+needle+")", "")
		}
	}
}
