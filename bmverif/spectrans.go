package main

// Translation of contract expressions to SMT over a symbolic state.

import (
	"fmt"
	"os"
	"math/big"
	"go/constant"
	"go/token"
	"go/types"
	"strings"

	"golang.org/x/tools/go/ssa"
)

type SpecEnv struct {
	ex      *exec
	vc      *VC
	cur     *State
	old     *State
	vars    map[string]Val
	parent  *SpecEnv
	results []Val
	resNames []string
	loop    *loopInfo
	pkg     string
	fn      *ssa.Function // non-nil: identifiers may denote this function's parameters/locals
	depth   int
	macroLoop *loopInfo // inside a spec-function body: the loop of the invariant being translated (for freshl)
	locSt     *State    // state from which source-level locals are read (old(...) switches the heap, not the locals)
}

func (env *SpecEnv) localsState() *State {
	if env.locSt != nil {
		return env.locSt
	}
	return env.cur
}

func (env *SpecEnv) enclosingLoop() *loopInfo {
	if env.loop != nil {
		return env.loop
	}
	return env.macroLoop
}

func (ex *exec) newEnv(cur, old *State) *SpecEnv {
	pkg := ""
	if ex.fn.Pkg != nil {
		pkg = ex.fn.Pkg.Pkg.Name()
	}
	env := &SpecEnv{ex: ex, vc: ex.vc, cur: cur, old: old, vars: map[string]Val{}, pkg: pkg, fn: ex.fn}
	res := ex.fn.Signature.Results()
	for i := 0; i < res.Len(); i++ {
		env.resNames = append(env.resNames, res.At(i).Name())
	}
	return env
}

func (env *SpecEnv) child() *SpecEnv {
	c := *env
	c.vars = map[string]Val{}
	c.parent = env
	return &c
}

func (env *SpecEnv) lookupVar(name string) (Val, bool) {
	for e := env; e != nil; e = e.parent {
		if v, ok := e.vars[name]; ok {
			return v, true
		}
	}
	return Val{}, false
}

func (env *SpecEnv) formula(e SExpr) (string, error) {
	v, err := env.term(e)
	if err != nil {
		return "", err
	}
	if v.S != SBool {
		return "", fmt.Errorf("expected a boolean, got sort %s", v.S)
	}
	return v.T, nil
}

var intT = types.Typ[types.Int]
var boolT = types.Typ[types.Bool]
var strT = types.Typ[types.String]

func (env *SpecEnv) term(e SExpr) (Val, error) {
	vc := env.vc
	switch x := e.(type) {
	case *SIntLit:
		s := x.V
		if strings.HasPrefix(s, "0x") {
			var n uint64
			fmt.Sscanf(s, "0x%x", &n)
			s = fmt.Sprint(n)
		}
		return Val{T: s, S: SInt, Typ: intT}, nil
	case *SBoolLit:
		if x.V {
			return Val{T: "true", S: SBool, Typ: boolT}, nil
		}
		return Val{T: "false", S: SBool, Typ: boolT}, nil
	case *SFltLit:
		r, ok := new(big.Rat).SetString(x.V)
		if !ok {
			return Val{}, fmt.Errorf("bad float literal %s", x.V)
		}
		return Val{T: env.ex.fltConst(r.RatString()), S: SFlt, Typ: types.Typ[types.Float64]}, nil
	case *SStrLit:
		return Val{T: vc.strLit(x.V), S: SStr, Typ: strT}, nil
	case *SChrLit:
		return Val{T: fmt.Sprint(int(x.V)), S: SInt, Typ: intT}, nil
	case *SNil:
		return Val{T: "0", S: "NIL"}, nil
	case *SIdent:
		return env.ident(x.Name)
	case *SUnary:
		v, err := env.term(x.X)
		if err != nil {
			return Val{}, err
		}
		switch x.Op {
		case "!":
			if v.S != SBool {
				return Val{}, fmt.Errorf("! on non-bool")
			}
			return Val{T: sNot(v.T), S: SBool, Typ: boolT}, nil
		case "-":
			return Val{T: "(- " + v.T + ")", S: SInt, Typ: intT}, nil
		}
	case *SBinary:
		return env.binary(x)
	case *SCond:
		c, err := env.formula(x.C)
		if err != nil {
			return Val{}, err
		}
		a, err := env.term(x.A)
		if err != nil {
			return Val{}, err
		}
		b, err := env.term(x.B)
		if err != nil {
			return Val{}, err
		}
		a, b = env.unifyNil(a, b)
		if a.S != b.S {
			return Val{}, fmt.Errorf("conditional branches have sorts %s and %s", a.S, b.S)
		}
		return Val{T: sIte(c, a.T, b.T), S: a.S, Typ: a.Typ}, nil
	case *SLet:
		v, err := env.term(x.Val)
		if err != nil {
			return Val{}, err
		}
		sub := env.child()
		sub.vars[x.Name] = v
		return sub.term(x.Body)
	case *SQuant:
		return env.quant(x)
	case *SComposite:
		t, err := vc.eng.resolveType(x.Type, env.pkg)
		if err != nil {
			return Val{}, err
		}
		st, ok := t.Underlying().(*types.Struct)
		if !ok {
			return Val{}, fmt.Errorf("composite literal of non-struct %s", x.Type)
		}
		if len(x.Elems) != st.NumFields() {
			return Val{}, fmt.Errorf("composite literal %s needs %d fields", x.Type, st.NumFields())
		}
		name := vc.sorts.structSort(t, st)
		var args []string
		for _, el := range x.Elems {
			v, err := env.term(el)
			if err != nil {
				return Val{}, err
			}
			args = append(args, v.T)
		}
		return Val{T: sApp("mk_"+name, args...), S: name, Typ: t}, nil
	case *SSelect:
		// package-qualified constant?
		if id, ok := x.X.(*SIdent); ok {
			if _, isVar := env.lookupVar(id.Name); !isVar {
				if p := vc.eng.pkgs[id.Name]; p != nil && !env.isName(id.Name) {
					if obj := p.Types.Scope().Lookup(x.Sel); obj != nil {
						if c, ok := obj.(*types.Const); ok {
							return constToVal(vc, c)
						}
						if g, ok := obj.(*types.Var); ok {
							if sp := vc.eng.spkgs[id.Name]; sp != nil {
								if gv, ok := sp.Members[x.Sel].(*ssa.Global); ok {
									hi := vc.globalHeap(gv)
									return Val{T: vc.heapGet(env.cur, hi), S: hi.valSort, Typ: g.Type()}, nil
								}
							}
						}
					}
				}
			}
		}
		base, err := env.term(x.X)
		if err != nil {
			return Val{}, err
		}
		return env.selectField(base, x.Sel)
	case *SIndex:
		base, err := env.term(x.X)
		if err != nil {
			return Val{}, err
		}
		idx, err := env.term(x.I)
		if err != nil {
			return Val{}, err
		}
		return env.index(base, idx)
	case *SSliceE:
		base, err := env.term(x.X)
		if err != nil {
			return Val{}, err
		}
		lo := Val{T: "0", S: SInt}
		if x.Lo != nil {
			lo, err = env.term(x.Lo)
			if err != nil {
				return Val{}, err
			}
		}
		switch base.S {
		case SStr:
			hi := "(gs.len " + base.T + ")"
			if x.Hi != nil {
				h, err := env.term(x.Hi)
				if err != nil {
					return Val{}, err
				}
				hi = h.T
			}
			return Val{T: "(gs.sub " + base.T + " " + lo.T + " " + hi + ")", S: SStr, Typ: strT}, nil
		case SSlice:
			hi := "(slen " + base.T + ")"
			if x.Hi != nil {
				h, err := env.term(x.Hi)
				if err != nil {
					return Val{}, err
				}
				hi = h.T
			}
			return Val{T: "(mkSlice (sarr " + base.T + ") (+ (soff " + base.T + ") " + lo.T + ") (- " + hi + " " + lo.T + ") (- (scap " + base.T + ") " + lo.T + "))", S: SSlice, Typ: base.Typ}, nil
		}
		return Val{}, fmt.Errorf("slice expression on sort %s", base.S)
	case *SCall:
		if i := strings.Index(x.Fun, "."); i > 0 {
			if _, isSpec := vc.eng.specs[x.Fun]; !isSpec {
				if recv, err := env.ident(x.Fun[:i]); err == nil {
					return env.methodCall(recv, x.Fun[i+1:], x.Args)
				}
			}
		}
		return env.call(x)
	case *SMethodCall:
		recv, err := env.term(x.Recv)
		if err != nil {
			return Val{}, err
		}
		return env.methodCall(recv, x.Name, x.Args)
	}
	return Val{}, fmt.Errorf("unsupported spec expression %T", e)
}

func constToVal(vc *VC, c *types.Const) (Val, error) {
	switch c.Val().Kind() {
	case constant.Int:
		return Val{T: sBig(c.Val().ExactString()), S: SInt, Typ: c.Type()}, nil
	case constant.Bool:
		if constant.BoolVal(c.Val()) {
			return Val{T: "true", S: SBool, Typ: boolT}, nil
		}
		return Val{T: "false", S: SBool, Typ: boolT}, nil
	case constant.String:
		return Val{T: vc.strLit(constant.StringVal(c.Val())), S: SStr, Typ: strT}, nil
	}
	return Val{}, fmt.Errorf("constant %s of unsupported kind", c.Name())
}

func (env *SpecEnv) isName(name string) bool {
	if _, ok := env.lookupVar(name); ok {
		return true
	}
	if env.fn != nil {
		for _, p := range env.fn.Params {
			if p.Name() == name {
				return true
			}
		}
	}
	return false
}

func (env *SpecEnv) ident(name string) (Val, error) {
	vc := env.vc
	if v, ok := env.lookupVar(name); ok {
		return v, nil
	}
	// results
	if env.results != nil {
		if name == "result" && len(env.results) >= 1 {
			return env.results[0], nil
		}
		for i := range env.results {
			if name == fmt.Sprintf("result%d", i) {
				return env.results[i], nil
			}
			if i < len(env.resNames) && env.resNames[i] != "" && env.resNames[i] == name {
				return env.results[i], nil
			}
		}
		if name == "err" && len(env.results) >= 1 {
			last := env.results[len(env.results)-1]
			if last.S == SIface {
				return last, nil
			}
		}
	}
	if env.fn != nil {
		// locals at a loop head
		if env.loop != nil {
			if v, ok, err := env.loopLocal(name); err != nil {
				return Val{}, err
			} else if ok {
				return v, nil
			}
		}
		for _, p := range env.fn.Params {
			if p.Name() == name {
				return vc.vals[p], nil
			}
		}
		if v, ok := vc.paramAlias[name]; ok {
			return vc.vals[v], nil
		}
	}
	// package-level constants
	if p := vc.eng.pkgs[env.pkg]; p != nil {
		if obj := p.Types.Scope().Lookup(name); obj != nil {
			if c, ok := obj.(*types.Const); ok {
				return constToVal(vc, c)
			}
			if g, ok := obj.(*types.Var); ok {
				if sp := vc.eng.spkgs[env.pkg]; sp != nil {
					if gv, ok := sp.Members[name].(*ssa.Global); ok {
						hi := vc.globalHeap(gv)
						return Val{T: vc.heapGet(env.cur, hi), S: hi.valSort, Typ: g.Type()}, nil
					}
				}
			}
		}
	}
	// zero-arity spec function
	if sf, ok := vc.eng.specs[name]; ok && len(sf.Params) == 0 {
		return env.call(&SCall{Fun: name})
	}
	return Val{}, fmt.Errorf("unknown identifier %q", name)
}

// loopLocal resolves a source-level local visible at the loop to its current value.
func (env *SpecEnv) loopLocal(name string) (Val, bool, error) {
	vc := env.vc
	li := env.loop
	if li.rangeIdx != nil && (li.keyName == name || name == "$i") {
		cur, ok := env.localsState().locals[li.rangeIdx]
		if !ok {
			return Val{}, false, fmt.Errorf("range index of loop %d not live", li.ordinal)
		}
		return Val{T: "(+ " + cur + " 1)", S: SInt, Typ: intT}, true, nil
	}
	// scope lookup at the loop body
	pkg := vc.eng.pkgs[env.pkg]
	if pkg == nil {
		return Val{}, false, nil
	}
	var bodyPos token.Pos
	switch n := li.astNode.(type) {
	case interface{ Pos() token.Pos }:
		bodyPos = n.Pos()
	}
	bodyPos = loopBodyPos(li)
	scope := pkg.Types.Scope().Innermost(bodyPos)
	if scope == nil {
		return Val{}, false, nil
	}
	_, obj := scope.LookupParent(name, bodyPos)
	if obj == nil {
		return Val{}, false, nil
	}
	if _, isVar := obj.(*types.Var); !isVar {
		return Val{}, false, nil
	}
	if obj.Parent() == pkg.Types.Scope() {
		return Val{}, false, nil
	}
	// find the alloc declared at obj.Pos()
	for a, t := range env.localsState().locals {
		if a.Pos() == obj.Pos() {
			et := a.Type().(*types.Pointer).Elem()
			return Val{T: t, S: vc.sorts.sortOf(et), Typ: et}, true, nil
		}
	}
	// a heap-allocated (escaping) local of struct type: the variable denotes the struct behind its allocation,
	// so field selections go through the pointer (other escaping locals are not supported in invariants)
	for _, b := range env.fn.Blocks {
		for _, ins := range b.Instrs {
			if a, ok := ins.(*ssa.Alloc); ok && a.Heap && a.Pos() == obj.Pos() {
				if _, isStruct := a.Type().(*types.Pointer).Elem().Underlying().(*types.Struct); isStruct {
					if v, ok := vc.vals[a]; ok {
						return Val{T: v.T, S: v.S, Typ: a.Type()}, true, nil
					}
				}
			}
		}
	}
	if os.Getenv("BMVERIF_DEBUG_LOCALS") != "" {
		fmt.Fprintf(os.Stderr, "loopLocal %s: obj at %v; candidates:", name, vc.eng.fset.Position(obj.Pos()))
		for a := range env.cur.locals {
			if a.Comment == name {
				fmt.Fprintf(os.Stderr, " %s@%v", a.Name(), vc.eng.fset.Position(a.Pos()))
			}
		}
		fmt.Fprintln(os.Stderr)
	}
	return Val{}, false, nil
}

func (env *SpecEnv) unifyNil(a, b Val) (Val, Val) {
	if a.S == "NIL" && b.S != "NIL" {
		a = nilOf(b)
	} else if b.S == "NIL" && a.S != "NIL" {
		b = nilOf(a)
	}
	return a, b
}
func nilOf(like Val) Val {
	switch like.S {
	case SIface:
		return Val{T: "nilIface", S: SIface, Typ: like.Typ}
	case SSlice:
		return Val{T: "nilSlice", S: SSlice, Typ: like.Typ}
	}
	return Val{T: "0", S: like.S, Typ: like.Typ}
}

func (env *SpecEnv) binary(x *SBinary) (Val, error) {
	switch x.Op {
	case "==>", "<==>", "&&", "||":
		a, err := env.formula(x.X)
		if err != nil {
			return Val{}, err
		}
		b, err := env.formula(x.Y)
		if err != nil {
			return Val{}, err
		}
		var t string
		switch x.Op {
		case "==>":
			t = sImp(a, b)
		case "<==>":
			t = sEq(a, b)
		case "&&":
			t = sAnd(a, b)
		case "||":
			t = sOr(a, b)
		}
		return Val{T: t, S: SBool, Typ: boolT}, nil
	}
	a, err := env.term(x.X)
	if err != nil {
		return Val{}, err
	}
	b, err := env.term(x.Y)
	if err != nil {
		return Val{}, err
	}
	a, b = env.unifyNil(a, b)
	switch x.Op {
	case "==", "!=":
		if a.S != b.S {
			return Val{}, fmt.Errorf("comparison of sorts %s and %s", a.S, b.S)
		}
		var t string
		if a.S == SSlice && (a.T == "nilSlice" || b.T == "nilSlice") {
			o := a
			if a.T == "nilSlice" {
				o = b
			}
			t = "(= (sarr " + o.T + ") 0)"
		} else {
			t = sEq(a.T, b.T)
		}
		if x.Op == "!=" {
			t = sNot(t)
		}
		return Val{T: t, S: SBool, Typ: boolT}, nil
	case "<", "<=", ">", ">=":
		if a.S != SInt || b.S != SInt {
			return Val{}, fmt.Errorf("ordering on sorts %s, %s", a.S, b.S)
		}
		return Val{T: "(" + x.Op + " " + a.T + " " + b.T + ")", S: SBool, Typ: boolT}, nil
	case "+":
		if a.S == SStr && b.S == SStr {
			return Val{T: "(gs.cat " + a.T + " " + b.T + ")", S: SStr, Typ: strT}, nil
		}
		fallthrough
	case "-", "*":
		if a.S == SFlt && b.S == SFlt && a.Typ != nil && env.ex != nil {
			// floating point: the same uninterpreted operation symbol the code's own arithmetic is modelled by
			fn := "flt." + map[string]string{"+": "add", "-": "sub", "*": "mul"}[x.Op] + "_" + typeKey(a.Typ)
			return Val{T: env.ex.uninterp(fn, []Val{a, b}, SFlt), S: SFlt, Typ: a.Typ}, nil
		}
		if a.S != SInt || b.S != SInt {
			return Val{}, fmt.Errorf("arithmetic on sorts %s, %s", a.S, b.S)
		}
		return Val{T: "(" + x.Op + " " + a.T + " " + b.T + ")", S: SInt, Typ: intT}, nil
	case "/":
		return Val{T: "(tdiv " + a.T + " " + b.T + ")", S: SInt, Typ: intT}, nil
	case "%":
		return Val{T: "(trem " + a.T + " " + b.T + ")", S: SInt, Typ: intT}, nil
	case "<<":
		return Val{T: "(* " + a.T + " (pow2 " + b.T + "))", S: SInt, Typ: intT}, nil
	case ">>":
		return Val{T: "(div " + a.T + " (pow2 " + b.T + "))", S: SInt, Typ: intT}, nil
	}
	return Val{}, fmt.Errorf("unsupported operator %s", x.Op)
}

func (env *SpecEnv) quant(x *SQuant) (Val, error) {
	// Pass 1 finds, for each bound integer variable, the slices it indexes directly; pass 2 re-expresses the
	// variable as an absolute array index so that the solver's triggers (select (select H arr) j) contain no
	// arithmetic on bound variables. When a variable indexes several slices, the formula is repeated once per
	// slice (logically equivalent copies), so that a ground access to any of them instantiates it.
	vc := env.vc
	saved, savedPlain := vc.idxUses, vc.plainUses
	vc.idxUses = map[string][]string{}
	vc.plainUses = map[string]bool{}
	// binder names are chosen once so that terms recorded in pass 1 stay meaningful in pass 2
	names := make([]string, len(x.Vars))
	for i, v := range x.Vars {
		vc.nfresh++
		names[i] = fmt.Sprintf("%s!q%d", sanitize(v.Name), vc.nfresh)
	}
	_, err := env.quant1(x, nil, names)
	uses := vc.idxUses
	for name := range vc.plainUses {
		delete(uses, name) // used directly as a ghost-map key or function argument: already a good trigger
	}
	vc.idxUses = saved
	vc.plainUses = savedPlain
	if err != nil {
		return Val{}, err
	}
	copies := 1
	for _, l := range uses {
		if len(l) > copies {
			copies = len(l)
		}
	}
	if copies > 4 {
		copies = 4
	}
	var parts []string
	for c := 0; c < copies; c++ {
		choice := map[string]string{}
		for name, l := range uses {
			k := c
			if k >= len(l) {
				k = len(l) - 1
			}
			choice[name] = l[k]
		}
		v, err := env.quant1(x, choice, names)
		if err != nil {
			return Val{}, err
		}
		parts = append(parts, v.T)
	}
	return Val{T: sAnd(parts...), S: SBool, Typ: boolT}, nil
}

func containsAny(s string, subs []string) bool {
	for _, x := range subs {
		if strings.Contains(s, x) {
			return true
		}
	}
	return false
}

func (env *SpecEnv) quant1(x *SQuant, absOf map[string]string, names []string) (Val, error) {
	vc := env.vc
	// a variable is re-expressed as an absolute index only relative to a slice that does not depend on a variable
	// bound by this same quantifier (it may depend on variables of enclosing quantifiers)
	savedB := vc.curBinders
	vc.curBinders = names
	defer func() { vc.curBinders = savedB }()
	sub := env.child()
	vc.quantDepth++
	defer func() { vc.quantDepth-- }()
	var binders []string
	var guards []string
	for vi, v := range x.Vars {
		ty, err := vc.eng.resolveType(v.Type, env.pkg)
		if err != nil {
			return Val{}, err
		}
		bn := names[vi]
		s := vc.sorts.sortOf(ty)
		val := Val{T: bn, S: s, Typ: ty}
		if absOf == nil {
			vc.qvarNames[bn] = v.Name
		} else if base, ok := absOf[v.Name]; ok && s == SInt {
			val.T = "(- " + bn + " (soff " + base + "))"
		}
		sub.vars[v.Name] = val
		binders = append(binders, "("+bn+" "+s+")")
		if _, isInt := intInfoOf(ty); !isInt {
			if g := vc.sorts.typeInv(ty, bn, ""); g != "true" {
				guards = append(guards, g)
			}
		}
	}
	body, err := sub.formula(x.Body)
	if err != nil {
		return Val{}, err
	}
	pat := ""
	for _, tr := range x.Triggers {
		var ts []string
		for _, t := range tr {
			v, err := sub.term(t)
			if err != nil {
				return Val{}, err
			}
			ts = append(ts, v.T)
		}
		pat += " :pattern (" + strings.Join(ts, " ") + ")"
	}
	q := "forall"
	if !x.Forall {
		q = "exists"
		body = sAnd(append(guards, body)...)
	} else if len(guards) > 0 {
		body = sImp(sAnd(guards...), body)
	}
	if pat != "" {
		body = "(! " + body + pat + ")"
	}
	return Val{T: "(" + q + " (" + strings.Join(binders, " ") + ") " + body + ")", S: SBool, Typ: boolT}, nil
}

// absIndex builds the absolute array index of element idx of slice term base.
func (vc *VC) absIndex(base, idx string) string {
	if vc.idxUses != nil {
		if name, ok := vc.qvarNames[idx]; ok && !containsAny(base, vc.curBinders) {
			dup := false
			for _, b := range vc.idxUses[name] {
				if b == base {
					dup = true
				}
			}
			if !dup {
				vc.idxUses[name] = append(vc.idxUses[name], base)
			}
		}
	}
	suffix := " (soff " + base + "))"
	if strings.HasPrefix(idx, "(- ") && strings.HasSuffix(idx, suffix) {
		inner := idx[3 : len(idx)-len(suffix)]
		if balanced(inner) && !strings.Contains(inner, " ") {
			return inner
		}
	}
	return "(+ (soff " + base + ") " + idx + ")"
}

func (env *SpecEnv) structOf(t types.Type) (types.Type, *types.Struct, bool) {
	if t == nil {
		return nil, nil, false
	}
	if p, ok := t.Underlying().(*types.Pointer); ok {
		if st, ok := p.Elem().Underlying().(*types.Struct); ok {
			return p.Elem(), st, true
		}
		return nil, nil, false
	}
	if st, ok := t.Underlying().(*types.Struct); ok {
		return t, st, false
	}
	return nil, nil, false
}

func (env *SpecEnv) ghostHeapFor(base Val, name string) (*heapInfo, error) {
	st, _, isPtr := env.structOf(base.Typ)
	if st == nil || !isPtr {
		return nil, fmt.Errorf("ghost field %s on non-pointer", name)
	}
	n, ok := types.Unalias(st).(*types.Named)
	if !ok {
		return nil, fmt.Errorf("ghost field on unnamed struct")
	}
	g := env.vc.eng.ghosts[n.Obj().Name()+"."+name]
	if g == nil {
		return nil, fmt.Errorf("no ghost field %s.%s", n.Obj().Name(), name)
	}
	return env.vc.ghostHeap(st, g)
}

func (env *SpecEnv) selectField(base Val, name string) (Val, error) {
	vc := env.vc
	st, sty, isPtr := env.structOf(base.Typ)
	if st == nil {
		return Val{}, fmt.Errorf("field %s of non-struct (type %v)", name, base.Typ)
	}
	obj, path, _ := types.LookupFieldOrMethod(base.Typ, true, nil, name)
	if obj == nil {
		// unexported field from another package: retry with the struct's package
		if n, ok := types.Unalias(st).(*types.Named); ok && n.Obj().Pkg() != nil {
			obj, path, _ = types.LookupFieldOrMethod(base.Typ, true, n.Obj().Pkg(), name)
		}
	}
	if fv, ok := obj.(*types.Var); !ok || !fv.IsField() {
		if isPtr {
			if hi, err := env.ghostHeapFor(base, name); err == nil {
				return Val{T: "(select " + vc.heapGet(env.cur, hi) + " " + base.T + ")", S: hi.valSort, Typ: hi.valType}, nil
			}
		}
		return Val{}, fmt.Errorf("no field %s in %v", name, st)
	}
	_ = sty
	cur := base
	curT := st
	ptr := isPtr
	for _, idx := range path {
		cst := curT.Underlying().(*types.Struct)
		ft := cst.Field(idx).Type()
		if ptr {
			if _, nested := ft.Underlying().(*types.Struct); nested {
				cur = Val{T: vc.interiorRef(curT, idx, cur.T), S: SInt, Typ: types.NewPointer(ft)}
				curT = ft
				ptr = true
				continue
			}
			hi := vc.fieldHeap(curT, idx)
			cur = Val{T: "(select " + vc.heapGet(env.cur, hi) + " " + cur.T + ")", S: hi.valSort, Typ: ft}
		} else {
			name := vc.sorts.structSort(curT, cst)
			cur = Val{T: "(" + vc.sorts.structs[name].fields[idx] + " " + cur.T + ")", S: vc.sorts.sortOf(ft), Typ: ft}
		}
		// next step
		if p, ok := ft.Underlying().(*types.Pointer); ok {
			curT = p.Elem()
			ptr = true
		} else {
			curT = ft
			ptr = false
		}
	}
	return cur, nil
}

func (env *SpecEnv) index(base, idx Val) (Val, error) {
	vc := env.vc
	switch base.S {
	case SSlice:
		sl, ok := base.Typ.Underlying().(*types.Slice)
		if !ok {
			return Val{}, fmt.Errorf("index: slice value without slice type")
		}
		hi := vc.elemHeap(sl.Elem())
		return Val{T: "(select (select " + vc.heapGet(env.cur, hi) + " (sarr " + base.T + ")) " + vc.absIndex(base.T, idx.T) + ")", S: hi.valSort, Typ: sl.Elem()}, nil
	case SStr:
		return Val{T: "(gs.at " + base.T + " " + idx.T + ")", S: SInt, Typ: intT}, nil
	}
	if base.Typ != nil {
		if m, ok := base.Typ.Underlying().(*types.Map); ok {
			if strings.HasPrefix(base.S, "(Array") { // ghost total map
				vc.notePlainUse(idx.T)
				return Val{T: "(select " + base.T + " " + idx.T + ")", S: vc.ghostSort(m.Elem()), Typ: m.Elem()}, nil
			}
			// Go map: value or zero
			has, val := vc.mapHeaps(m)
			present := "(select (select " + vc.heapGet(env.cur, has) + " " + base.T + ") " + idx.T + ")"
			stored := "(select (select " + vc.heapGet(env.cur, val) + " " + base.T + ") " + idx.T + ")"
			return Val{T: sIte(present, stored, vc.sorts.zero(m.Elem())), S: val.valSort, Typ: m.Elem()}, nil
		}
		if a, ok := base.Typ.Underlying().(*types.Array); ok {
			return Val{T: "(select " + base.T + " " + idx.T + ")", S: vc.sorts.sortOf(a.Elem()), Typ: a.Elem()}, nil
		}
	}
	return Val{}, fmt.Errorf("index on sort %s", base.S)
}

var builtinSpecFns = map[string]struct {
	smt  string
	args []string
	ret  string
}{
	"pow2":    {"pow2", []string{SInt}, SInt},
	"pow2big": {"pow2big", []string{SInt}, SInt},
	"bitsfor": {"bitsfor", []string{SInt}, SInt},
	"itoa":    {"gs.itoa", []string{SInt}, SStr},
	"atoi":    {"gs.atoi", []string{SStr}, SInt},
	"cat":     {"gs.cat", []string{SStr, SStr}, SStr},
	"sub":     {"gs.sub", []string{SStr, SInt, SInt}, SStr},
	"at":      {"gs.at", []string{SStr, SInt}, SInt},
	"val":     {"gs.val", []string{SStr}, SInt},
	"isbin":   {"gs.isbin", []string{SStr}, SBool},
	"lower":   {"gs.lower", []string{SStr}, SStr},
	"upper":   {"gs.upper", []string{SStr}, SStr},
	"binstr":  {"gs.bin", []string{SInt}, SStr},
	"nfields": {"gs.nf", []string{SStr, SStr}, SInt},
	"field":   {"gs.fld", []string{SStr, SStr, SInt}, SStr},
	"wrapS64": {"wrapS64", []string{SInt}, SInt},
	"wrapU64": {"wrapU64", []string{SInt}, SInt},
	"wrapU8":  {"wrapU8", []string{SInt}, SInt},
	"tdiv":    {"tdiv", []string{SInt, SInt}, SInt},
	"abs":     {"absI", []string{SInt}, SInt},
}

func (env *SpecEnv) call(x *SCall) (Val, error) {
	vc := env.vc
	switch x.Fun {
	case "old":
		if len(x.Args) != 1 {
			return Val{}, fmt.Errorf("old takes one argument")
		}
		sub := env.child()
		sub.locSt = env.localsState() // locals keep their current values; only heap reads go to the entry state
		sub.cur = env.old
		sub.results = nil
		return sub.term(x.Args[0])
	case "pre":
		// pre(e): value of e when the enclosing loop was entered (loop invariants only)
		li := env.enclosingLoop()
		if li == nil || len(x.Args) != 1 {
			return Val{}, fmt.Errorf("pre(e) is only available in loop invariants")
		}
		ps := env.ex.loopPreSt[li.header]
		if ps == nil {
			return Val{}, fmt.Errorf("pre(): no pre-loop state")
		}
		sub := env.child()
		sub.cur = ps
		sub.results = nil
		return sub.term(x.Args[0])
	case "len", "cap":
		if len(x.Args) != 1 {
			return Val{}, fmt.Errorf("%s takes one argument", x.Fun)
		}
		v, err := env.term(x.Args[0])
		if err != nil {
			return Val{}, err
		}
		switch v.S {
		case SSlice:
			if x.Fun == "cap" {
				return Val{T: "(scap " + v.T + ")", S: SInt, Typ: intT}, nil
			}
			return Val{T: "(slen " + v.T + ")", S: SInt, Typ: intT}, nil
		case SStr:
			return Val{T: "(gs.len " + v.T + ")", S: SInt, Typ: intT}, nil
		}
		if v.Typ != nil {
			if a, ok := v.Typ.Underlying().(*types.Array); ok {
				return Val{T: fmt.Sprint(a.Len()), S: SInt, Typ: intT}, nil
			}
		}
		return Val{}, fmt.Errorf("%s of sort %s", x.Fun, v.S)
	case "arr", "off":
		v, err := env.term(x.Args[0])
		if err != nil {
			return Val{}, err
		}
		if v.S != SSlice {
			return Val{}, fmt.Errorf("%s of non-slice", x.Fun)
		}
		return Val{T: "(s" + x.Fun + " " + v.T + ")", S: SInt, Typ: intT}, nil
	case "int", "uint8", "uint16", "uint32", "uint64", "int8", "int16", "int32", "int64", "uint", "byte":
		v, err := env.term(x.Args[0])
		if err != nil {
			return Val{}, err
		}
		if v.S != SInt {
			return Val{}, fmt.Errorf("conversion %s of non-integer", x.Fun)
		}
		if x.Fun == "int" {
			return Val{T: v.T, S: SInt, Typ: intT}, nil
		}
		ty := types.Universe.Lookup(x.Fun).Type()
		ii, _ := intInfoOf(ty)
		return Val{T: ii.wrapFull(v.T), S: SInt, Typ: ty}, nil
	case "extstr", "extint":
		// extstr("pkg.Func", args...) / extint(...): the value the effect-free external function of that key returns
		// for these arguments - the same uninterpreted application the code's own call is modelled by
		if len(x.Args) < 1 {
			return Val{}, fmt.Errorf("%s: missing function key", x.Fun)
		}
		kl, ok := x.Args[0].(*SStrLit)
		if !ok || !pureExterns[kl.V] {
			return Val{}, fmt.Errorf("%s: first argument must name an effect-free external function", x.Fun)
		}
		var sorts, ts []string
		for _, a := range x.Args[1:] {
			v, err := env.term(a)
			if err != nil {
				return Val{}, err
			}
			sorts = append(sorts, v.S)
			ts = append(ts, v.T)
		}
		rs, rt := SStr, types.Type(strT)
		if x.Fun == "extint" {
			rs, rt = SInt, intT
		}
		fname := fmt.Sprintf("ext_%s_%d", sanitize(kl.V), 0)
		vc.declFun(fname, sorts, rs)
		return Val{T: sApp(fname, ts...), S: rs, Typ: rt}, nil
	case "deref":
		// deref(p): the value behind a pointer to a non-struct value (struct fields are reached with p.f)
		if len(x.Args) != 1 {
			return Val{}, fmt.Errorf("deref takes one argument")
		}
		v, err := env.term(x.Args[0])
		if err != nil {
			return Val{}, err
		}
		pt, ok := v.Typ.Underlying().(*types.Pointer)
		if !ok {
			return Val{}, fmt.Errorf("deref of a non-pointer")
		}
		if _, isStruct := pt.Elem().Underlying().(*types.Struct); isStruct {
			return Val{}, fmt.Errorf("deref of a pointer to a struct: select its fields instead")
		}
		hi := vc.derefHeap(pt.Elem())
		return Val{T: "(select " + vc.heapGet(env.cur, hi) + " " + v.T + ")", S: vc.sorts.sortOf(pt.Elem()), Typ: pt.Elem()}, nil
	case "typeid":
		v, err := env.term(x.Args[0])
		if err != nil {
			return Val{}, err
		}
		return Val{T: "(itid " + v.T + ")", S: SInt, Typ: intT}, nil
	case "istype":
		// istype(x, T): dynamic type of interface value x is T
		v, err := env.term(x.Args[0])
		if err != nil {
			return Val{}, err
		}
		tyName := ""
		if id, ok := x.Args[1].(*SIdent); ok {
			tyName = id.Name
		} else if sl, ok := x.Args[1].(*SStrLit); ok {
			tyName = sl.V // a type expression such as "*bool"
		} else {
			return Val{}, fmt.Errorf("istype: second argument must be a type name")
		}
		ty, err := vc.eng.resolveType(tyName, env.pkg)
		if err != nil {
			return Val{}, err
		}
		return Val{T: fmt.Sprintf("(= (itid %s) %d)", v.T, vc.typeID(ty)), S: SBool, Typ: boolT}, nil
	case "unbox":
		// unbox(x, T): payload of interface value x as T
		v, err := env.term(x.Args[0])
		if err != nil {
			return Val{}, err
		}
		tyName := ""
		if id, ok := x.Args[1].(*SIdent); ok {
			tyName = id.Name
		} else if sl, ok := x.Args[1].(*SStrLit); ok {
			tyName = sl.V
		} else {
			return Val{}, fmt.Errorf("unbox: second argument must be a type name")
		}
		ty, err := vc.eng.resolveType(tyName, env.pkg)
		if err != nil {
			return Val{}, err
		}
		return Val{T: vc.fromIface(v.T, ty), S: vc.sorts.sortOf(ty), Typ: ty}, nil
	case "haskey":
		// haskey(m, k): key k is present in Go map m
		if len(x.Args) != 2 {
			return Val{}, fmt.Errorf("haskey takes two arguments")
		}
		m, err := env.term(x.Args[0])
		if err != nil {
			return Val{}, err
		}
		k, err := env.term(x.Args[1])
		if err != nil {
			return Val{}, err
		}
		mt, ok := m.Typ.Underlying().(*types.Map)
		if !ok {
			return Val{}, fmt.Errorf("haskey on non-map")
		}
		has, _ := vc.mapHeaps(mt)
		return Val{T: "(and (not (= " + m.T + " 0)) (select (select " + vc.heapGet(env.cur, has) + " " + m.T + ") " + k.T + "))", S: SBool, Typ: boolT}, nil
	case "freshl":
		// freshl(r): reference r was allocated after the enclosing loop was entered (loop invariants only)
		if env.enclosingLoop() == nil {
			return Val{}, fmt.Errorf("freshl outside a loop invariant")
		}
		v, err := env.term(x.Args[0])
		if err != nil {
			return Val{}, err
		}
		t := v.T
		if v.S == SSlice {
			t = "(sarr " + v.T + ")"
		}
		return Val{T: "(and (>= " + t + " " + env.ex.loopPreRef[env.enclosingLoop().header] + ") (< " + t + " " + env.cur.nextRef + "))", S: SBool, Typ: boolT}, nil
	case "visited":
		// visited(k): inside the invariants of a loop that iterates over a map - key k has already been produced
		if len(x.Args) != 1 || env.enclosingLoop() == nil {
			return Val{}, fmt.Errorf("visited(k) is only meaningful in the invariants of a map iteration")
		}
		rng := env.ex.rangeOfLoop(env.enclosingLoop())
		if rng == nil || !env.ex.useVisited {
			return Val{}, fmt.Errorf("visited(k): the loop does not iterate over a map")
		}
		v, err := env.term(x.Args[0])
		if err != nil {
			return Val{}, err
		}
		return Val{T: "(select " + env.vc.heapGet(env.cur, env.ex.visitedOf(rng)) + " " + v.T + ")", S: SBool, Typ: boolT}, nil
	case "evalcount", "evaltrue", "evalfalse":
		// evalcount(f): number of calls made so far through function value f (calls through a function type under contract)
		if len(x.Args) != 1 {
			return Val{}, fmt.Errorf("%s takes one argument", x.Fun)
		}
		v, err := env.term(x.Args[0])
		if err != nil {
			return Val{}, err
		}
		if v.S != SInt {
			return Val{}, fmt.Errorf("evalcount of a non-function value (sort %s)", v.S)
		}
		var eh *heapInfo
		for _, h := range env.vc.evalHeaps() {
			if h.name == "HG_"+x.Fun {
				eh = h
			}
		}
		return Val{T: "(select " + env.vc.heapGet(env.cur, eh) + " " + v.T + ")", S: SInt, Typ: intT}, nil
	case "fresh":
		// fresh(r): reference r was not allocated at function entry
		v, err := env.term(x.Args[0])
		if err != nil {
			return Val{}, err
		}
		t := v.T
		if v.S == SSlice {
			t = "(sarr " + v.T + ")"
		}
		// allocated between the old state and the current one
		return Val{T: "(and (>= " + t + " " + env.old.nextRef + ") (< " + t + " " + env.cur.nextRef + "))", S: SBool, Typ: boolT}, nil
	}
	if b, ok := builtinSpecFns[x.Fun]; ok {
		if len(x.Args) != len(b.args) {
			return Val{}, fmt.Errorf("%s takes %d arguments", x.Fun, len(b.args))
		}
		var ts []string
		for i, a := range x.Args {
			v, err := env.term(a)
			if err != nil {
				return Val{}, err
			}
			if v.S != b.args[i] {
				return Val{}, fmt.Errorf("%s: argument %d has sort %s, want %s", x.Fun, i+1, v.S, b.args[i])
			}
			ts = append(ts, v.T)
		}
		var ty types.Type = intT
		switch b.ret {
		case SStr:
			ty = strT
		case SBool:
			ty = boolT
		}
		return Val{T: sApp(b.smt, ts...), S: b.ret, Typ: ty}, nil
	}
	sf, ok := vc.eng.specs[x.Fun]
	if !ok {
		return Val{}, fmt.Errorf("unknown spec function %q", x.Fun)
	}
	if len(x.Args) != len(sf.Params) {
		return Val{}, fmt.Errorf("%s takes %d arguments", x.Fun, len(sf.Params))
	}
	var args []Val
	for i, a := range x.Args {
		v, err := env.term(a)
		if err != nil {
			return Val{}, err
		}
		pt, err := vc.eng.resolveType(sf.Params[i].Type, sf.Pkg)
		if err != nil {
			return Val{}, fmt.Errorf("%s: %v", x.Fun, err)
		}
		if v.S == "NIL" {
			v = nilOf(Val{S: vc.sorts.sortOf(pt), Typ: pt})
		}
		if v.S != vc.sorts.sortOf(pt) {
			return Val{}, fmt.Errorf("%s: argument %d has sort %s, want %s", x.Fun, i+1, v.S, vc.sorts.sortOf(pt))
		}
		v.Typ = pt
		args = append(args, v)
	}
	rt, err := vc.eng.resolveType(sf.RetType, sf.Pkg)
	if err != nil {
		return Val{}, fmt.Errorf("%s: %v", x.Fun, err)
	}
	rs := vc.sorts.sortOf(rt)
	if sf.Body == nil {
		// uninterpreted
		var sorts, ts []string
		for _, a := range args {
			sorts = append(sorts, a.S)
			ts = append(ts, a.T)
		}
		for _, a := range args {
			vc.notePlainUse(a.T)
		}
		vc.declFun("sp_"+sf.Name, sorts, rs)
		return Val{T: sApp("sp_"+sf.Name, ts...), S: rs, Typ: rt}, nil
	}
	if env.depth > 40 {
		return Val{}, fmt.Errorf("spec function expansion too deep at %s (recursion?)", x.Fun)
	}
	// macro expansion: body evaluated in the caller's state with parameters bound
	sub := &SpecEnv{ex: env.ex, vc: vc, cur: env.cur, old: env.old, vars: map[string]Val{}, pkg: sf.Pkg, depth: env.depth + 1, macroLoop: env.enclosingLoop()}
	if sub.pkg == "" {
		sub.pkg = env.pkg
	}
	for i, p := range sf.Params {
		a := args[i]
		if len(a.T) > 60 {
			a.T = vc.defineHere(p.Name, a.S, a.T)
		}
		sub.vars[p.Name] = a
	}
	v, err := sub.term(sf.Body)
	if err != nil {
		return Val{}, fmt.Errorf("in %s: %v", x.Fun, err)
	}
	if v.S != rs {
		return Val{}, fmt.Errorf("%s: body has sort %s, declared %s", x.Fun, v.S, rs)
	}
	v.Typ = rt
	return v, nil
}

// defineHere names a term unless we are under a quantifier binder (bound variables may occur in it).
func (vc *VC) defineHere(prefix, sort, term string) string {
	if vc.quantDepth > 0 || strings.Contains(term, "!q") {
		return term
	}
	return vc.define(prefix, sort, term)
}

func loopBodyPos(li *loopInfo) token.Pos {
	switch n := li.astNode.(type) {
	case interface{ End() token.Pos }:
		_ = n
	}
	return bodyLbrace(li) + 1
}

// ---------------------------------------------------------------------------
// Splitting a goal into conjuncts (smaller queries, stable sub-names).

type namedFormula struct {
	name string
	t    string
}

// splitGoal translates e and splits it along &&, predicate bodies and ∀-bodies.
func (env *SpecEnv) splitGoal(e SExpr, name string) ([]namedFormula, error) {
	switch x := e.(type) {
	case *SBinary:
		if x.Op == "&&" {
			a, err := env.splitGoal(x.X, name)
			if err != nil {
				return nil, err
			}
			b, err := env.splitGoal(x.Y, name)
			if err != nil {
				return nil, err
			}
			return renumber(append(a, b...), name), nil
		}
		if x.Op == "==>" {
			g, err := env.formula(x.X)
			if err != nil {
				return nil, err
			}
			parts, err := env.splitGoal(x.Y, name)
			if err != nil {
				return nil, err
			}
			for i := range parts {
				parts[i].t = sImp(g, parts[i].t)
			}
			return parts, nil
		}
	case *SCall:
		if sf, ok := env.vc.eng.specs[x.Fun]; ok && sf.Body != nil && sf.RetType == "bool" && len(x.Args) == len(sf.Params) && env.depth < 40 {
			sub := &SpecEnv{ex: env.ex, vc: env.vc, cur: env.cur, old: env.old, vars: map[string]Val{}, pkg: sf.Pkg, depth: env.depth + 1, macroLoop: env.enclosingLoop()}
			if sub.pkg == "" {
				sub.pkg = env.pkg
			}
			for i, p := range sf.Params {
				v, err := env.term(x.Args[i])
				if err != nil {
					return nil, err
				}
				pt, err := env.vc.eng.resolveType(p.Type, sf.Pkg)
				if err != nil {
					return nil, err
				}
				if v.S == "NIL" {
					v = nilOf(Val{S: env.vc.sorts.sortOf(pt), Typ: pt})
				}
				v.Typ = pt
				sub.vars[p.Name] = v
			}
			parts, err := sub.splitGoal(sf.Body, x.Fun)
			if err != nil {
				return nil, fmt.Errorf("in %s: %v", x.Fun, err)
			}
			for i := range parts {
				parts[i].name = name + ":" + parts[i].name
			}
			return parts, nil
		}
		if x.Fun == "old" && len(x.Args) == 1 {
			sub := env.child()
			sub.locSt = env.localsState()
			sub.cur = env.old
			sub.results = nil
			return sub.splitGoal(x.Args[0], name)
		}
	case *SQuant:
		if x.Forall && len(x.Triggers) == 0 {
			// ∀x. G ==> (A && B)  ≡  (∀x. G ==> A) && (∀x. G ==> B)
			var guard SExpr
			body := x.Body
			if b, ok := body.(*SBinary); ok && b.Op == "==>" {
				guard, body = b.X, b.Y
			}
			conj := flattenAnd(body)
			if len(conj) > 1 {
				var out []namedFormula
				for _, c := range conj {
					var nb SExpr = c
					if guard != nil {
						nb = &SBinary{"==>", guard, c}
					}
					t, err := env.formula(&SQuant{Forall: true, Vars: x.Vars, Body: nb})
					if err != nil {
						return nil, err
					}
					out = append(out, namedFormula{name, t})
				}
				return renumber(out, name), nil
			}
		}
	}
	t, err := env.formula(e)
	if err != nil {
		return nil, err
	}
	return []namedFormula{{name, t}}, nil
}

func flattenAnd(e SExpr) []SExpr {
	if b, ok := e.(*SBinary); ok && b.Op == "&&" {
		return append(flattenAnd(b.X), flattenAnd(b.Y)...)
	}
	return []SExpr{e}
}

// renumber gives parts that share the plain name distinct ordinal suffixes.
func renumber(parts []namedFormula, name string) []namedFormula {
	n := 0
	for _, p := range parts {
		if p.name == name || strings.HasPrefix(p.name, name+"/") {
			n++
		}
	}
	if n <= 1 {
		return parts
	}
	k := 0
	for i := range parts {
		if parts[i].name == name || strings.HasPrefix(parts[i].name, name+"/") {
			k++
			parts[i].name = fmt.Sprintf("%s/%d", name, k)
		}
	}
	return parts
}

func (vc *VC) notePlainUse(t string) {
	if vc.plainUses != nil {
		if name, ok := vc.qvarNames[t]; ok {
			vc.plainUses[name] = true
		}
	}
}

// methodCall: application of a pure Go method inside a contract: the same term a call in code produces.
func (env *SpecEnv) methodCall(recv Val, name string, argExprs []SExpr) (Val, error) {
	vc := env.vc
	if recv.Typ == nil {
		return Val{}, fmt.Errorf("method %s on untyped value", name)
	}
	obj, path, _ := types.LookupFieldOrMethod(recv.Typ, true, nil, name)
	if obj == nil {
		if st, _, _ := env.structOf(recv.Typ); st != nil {
			if n, ok := types.Unalias(st).(*types.Named); ok && n.Obj().Pkg() != nil {
				obj, path, _ = types.LookupFieldOrMethod(recv.Typ, true, n.Obj().Pkg(), name)
			}
		}
	}
	m, ok := obj.(*types.Func)
	if !ok {
		return Val{}, fmt.Errorf("no method %s on %v", name, recv.Typ)
	}
	var args []Val
	for _, a := range argExprs {
		v, err := env.term(a)
		if err != nil {
			return Val{}, err
		}
		args = append(args, v)
	}
	sig := m.Type().(*types.Signature)
	if sig.Results().Len() != 1 {
		return Val{}, fmt.Errorf("method %s must have exactly one result to be used in a contract", name)
	}
	rt := sig.Results().At(0).Type()
	rsort := vc.sorts.sortOf(rt)
	for i := range args {
		if i < sig.Params().Len() {
			pt := sig.Params().At(i).Type()
			if args[i].S == "NIL" {
				args[i] = nilOf(Val{S: vc.sorts.sortOf(pt), Typ: pt})
			}
			args[i].Typ = pt
		}
	}
	if _, isIface := recv.Typ.Underlying().(*types.Interface); isIface {
		n, ok := types.Unalias(recv.Typ).(*types.Named)
		if !ok {
			return Val{}, fmt.Errorf("method call on unnamed interface")
		}
		key := "iface:" + n.Obj().Pkg().Name() + "." + n.Obj().Name() + "." + name
		fc := vc.eng.contracts[key]
		if fc == nil || !fc.Pure {
			return Val{}, fmt.Errorf("%s has no pure interface-level contract", key)
		}
		rs := vc.eng.ifaceReads(recv.Typ, m)
		all := append([]Val{recv}, args...)
		names := append([]string{fc.RecvName}, fc.ParamNames...)
		return Val{T: env.ex.pureTerm(fc, key, names, all, env.cur, rs, 0, rsort), S: rsort, Typ: rt}, nil
	}
	// static method: walk embedded fields to the declared receiver
	cur := recv
	for _, idx := range path[:len(path)-1] {
		st, sty, isPtr := env.structOf(cur.Typ)
		if st == nil || !isPtr {
			return Val{}, fmt.Errorf("promoted method %s through a non-pointer receiver", name)
		}
		ft := sty.Field(idx).Type()
		if _, nested := ft.Underlying().(*types.Struct); nested {
			cur = Val{T: vc.interiorRef(st, idx, cur.T), S: SInt, Typ: types.NewPointer(ft)}
		} else {
			hi := vc.fieldHeap(st, idx)
			cur = Val{T: "(select " + vc.heapGet(env.cur, hi) + " " + cur.T + ")", S: hi.valSort, Typ: ft}
		}
	}
	fn := vc.eng.prog.FuncValue(m)
	if fn == nil {
		return Val{}, fmt.Errorf("method %s has no SSA function", name)
	}
	key := funcKey(fn)
	fc := vc.eng.contracts[key]
	if fc == nil || !fc.Pure {
		return Val{}, fmt.Errorf("%s is not declared pure; only pure methods may be called in contracts", key)
	}
	// value receiver given a pointer: load the struct
	if _, wantsPtr := sig.Recv().Type().Underlying().(*types.Pointer); !wantsPtr {
		if _, havePtr := cur.Typ.Underlying().(*types.Pointer); havePtr {
			return Val{}, fmt.Errorf("value-receiver method %s on a pointer in a contract is not supported", name)
		}
	}
	rs := vc.eng.readsOf(fn)
	all := append([]Val{cur}, args...)
	var names []string
	for _, p := range fn.Params {
		names = append(names, p.Name())
	}
	return Val{T: env.ex.pureTerm(fc, key, names, all, env.cur, rs, 0, rsort), S: rsort, Typ: rt}, nil
}

func (env *SpecEnv) hasLoopLocal(name string) bool {
	if env.loop == nil || env.fn == nil {
		return false
	}
	_, ok, _ := env.loopLocal(name)
	return ok
}
