package main

// Property-level check: contracts tagged with the property id → obligations → solvers → evidence / VIOLATION lines.

import (
	"encoding/json"
	"flag"
	"fmt"
	"os"
	"path/filepath"
	"sort"
	"strconv"
	"strings"
	"time"
)

type propConfig struct {
	pkgs     []string
	extra    func(c *checkRun) // additional non-SSA obligations (e.g. regular-language lemmas)
	notes    []string          // clauses of the property statement that this check does not decide
	bounded  []string
}

var propConfigs = map[string]*propConfig{
	"C02": {pkgs: []string{"./pkg/bondmachine"}, notes: []string{
		"decided (simulator side): after one tick of bondmachine.VM.Step, every linked internal input holds the data/valid of the internal output its link names, and an internal output's received line is true exactly when at least one input is bonded to it and all bonded inputs have received (both before the compute phase, as handed to the processors, and after it)",
		"not decided: the generated top-level netlist (Verilog text), stream equality between HDL and simulation, timing; index safety of Step is assumed (frameonly), array shapes and pairwise distinctness of the tick's arrays are preconditions established by VM.Init (not under contract)",
		"the channel barrier is modelled as a synchronisation point at which other goroutines may change anything except the tick's own arrays and the machine description (sync preserves clause, an assumption supported by C09's frame results)",
	}},
	"C04": {pkgs: []string{"./pkg/procbuilder", "./pkg/bondmachine"}, extra: c04Canary, notes: []string{
		"decided, per step, also for sicv3: it acknowledges and advances only in a step where valid is up and registers the deferred drop for that input in every such step",
		"known finding (whole-history, outside the per-step contracts; listed in known_findings.json and replayed on the real simulator on every run): r2owa instructions executed in a row on one bond lose a value, because the second one completes on the still-raised acknowledge of the first transfer",
		"decided, per step: r2owa raises valid with the register's value and advances only in a step where received is already up, dropping valid in that same step; i2rw copies the input, raises received and advances only in a step where valid is up, and registers the deferred drop under a per-input key; the deferred drop lowers received exactly when valid has fallen; the received line an output sees is the conjunction over its consumers (VM.Step)",
		"not decided: that these steps compose to exactly-once, in-order delivery for every relative timing and fan-out (a whole-history protocol property over independently stepping processors), sicv3's counting state machine, and the HDL state machines",
	}},
	"C03": {pkgs: []string{"./pkg/procbuilder"}, notes: []string{
		"textual normalisation of numeric literals is assumed through Process_number's contract (numval): the literal's value, not its spelling, round-trips",
		"opcodes whose assembler shape the contract generator does not recognise (listed at the end of pkg/procbuilder/verif_contracts_ops.go) have no functional round-trip contract; the dynamic opcode families are not covered",
		"disassembly of immediates wider than 62 bits is excluded by precondition (get_id is specified for fields up to 62 bits)",
		"round trips are stated per opcode through proof harnesses (assemble, check the word width as the dispatcher does, disassemble); Machine.Disassembler's loop over a whole program is not under contract",
	}},
	"C11": {pkgs: []string{"./pkg/procbuilder", "./pkg/bondmachine"}, notes: []string{
		"decided: Machine.Jsoner/Machine_json.Dejsoner and Bondmachine.Jsoner/Bondmachine_json.Dejsoner copy every persisted field (one obligation per struct field is generated from the struct definitions, so a field added without extending the copiers fails); Dejsoner restores an opcode for every name that is registered and never leaves such an entry nil; a save-then-load harness proves field-wise equality and same-name opcode restoration for machines whose opcodes are registered",
		"decided for shared objects: for lfsr8, barrier, queue, stack, sharedmem, channel, kbd and uart the instance's String and the element's Instantiate are proved inverse on every parameter value, and every Instantiate accepts only texts with its own kind prefix (so the first-match loop of Dejsoner cannot pick another kind)",
		"transient fields by declaration: Conproc.CpID, Conproc.SharedHDLOps, Arch.Tag (assigned by the HDL writer before use)",
		"not decided: 'simulates identically / regenerates byte-identical Verilog' (follows only if those depend on persisted fields alone), the textual round trip of the vtextmem shared object (only its claim on the text prefix is proved), EventuallyCreateInstruction (trusted contract: it keeps registered opcodes in place and does not append when the name is already registered), encoding/json itself",
	}},
	"C14": {pkgs: []string{"./pkg/bmmatrix", "./pkg/bmqsim", "./pkg/bmline", "./pkg/bmmeta"}, extra: func(c *checkRun) { c14Canary(c); c14Bounded(c) }, notes: []string{
		"decided for the layering: QasmToBmMatrices hands BmMatrixFromOperation only layers in which no qubit is named twice (the precondition the matrix builder relies on), at both flush sites, for circuits of any length; the layer under construction is always exactly the contiguous run of source lines ending at the current line (no line skipped, duplicated or reordered) and its qubits are exactly those recorded as in use",
		"decided for the software simulation: RunSoftwareSimulation gives every input state vector a buffer of its own: the output vectors are freshly allocated, pairwise distinct arrays, no input vector and no output already stored is written again (loop frame), and the input list is unchanged; StateSize is trusted (math.Pow)",
		"decided for the matrix-vector product: every component of the result of MatrixVectorProductComplex is the complete sum of the N products of its row with the vector, accumulated in index order from zero (a functional contract over uninterpreted float32 operations: no arithmetic law is used, so a term that is skipped, repeated or reordered fails); Complex32Add/Complex32Mul are proved to be the component formulas",
		"decided (discrete kernel only): bmmatrix.SwapRowsColsComplex is exact data movement, result[i][j] == a[tau(i)][tau(j)] for the transposition tau=(x y), for well-formed square matrices of any size, leaving its argument untouched; NewBmMatrixSquareComplex returns a fresh, zeroed, well-formed matrix whose rows do not share storage; IdentityComplex is the identity pattern (float32 values are opaque: no floating-point arithmetic is interpreted)",
		"not decided: that the emitted matrices multiply to the circuit's unitary and are unitary within tolerance (nonlinear float32 arithmetic is outside this family), swaps2baseSwaps (64-bit bit manipulation and a map; no bit-vector mode in the engine), BmMatrixFromOperation's argument reordering (trusted contract), termination of the layering loop (a 'nextop' pseudo-instruction or a gate naming one qubit twice is never consumed), the numeric content of the simulated state",
		"defect F3 (two two-qubit gates on interleaved qubits in one layer compiled to the matrix of the adjacent circuit; repaired by a fix: commit) is watched on every run by replaying its recorded circuit on the real compiler; that replay is a test of one input, not a proof, and is not counted among the obligations",
	}},
	"C15": {pkgs: []string{"./pkg/simbox", "./pkg/bondmachine", "./pkg/procbuilder"}, notes: []string{
		"decided: Simbox.Add appends exactly one, not suspended, rule or leaves the list untouched; Del/Suspend/Reactivate have exactly their stated effect and change nothing else; bondmachine.SimConfig.Init and procbuilder.SimConfig.Init set an option iff it was already set or some not-suspended configuration rule names it (a suspended rule has no effect on the configuration)",
		"decided: Rule.String prints exactly the documented text of each rule form; every rule Add creates is of a printable form (image), and for every such rule x, Add(text(x)) succeeds and appends exactly x (inverse) - proved on every path of Add, including the final rejection; strings.Split is modelled by the field laws of one-character separators (nfields/field homomorphism over concatenation, part of the string model T2)",
		"decided for event rules: EventListShow shows a position only if some rule justifies it - an on-exit show rule at shutdown, an on-valid show rule on the rising edge of the watched valid line (new value up, old value down); the converse (every justified position is shown) is not decided because map iteration is over-approximated",
		"not decided: rule files on disk (encoding/json), SimDrive.Init/SimReport.Init (store and compare *interface{} pointers; outside the subset) and the per-tick injection/report semantics",
	}},
	"C16": {pkgs: []string{"./pkg/procbuilder", "./pkg/bondmachine", "./pkg/basm", "./pkg/bondgo", "./pkg/bmstack", "./pkg/bmserialize", "./pkg/bondirect"}, notes: []string{
		"requirement inference of the front ends (basm, bondgo, neuralbond: how many registers/ports/ROM cells a source needs) is string-, map- and goroutine-server code outside the verifiable subset",
		"opcode list sortedness/duplicate-freedom and Rsize agreement between machine and domains are not decided",
		"bond-graph well-formedness of constructed machines is property C10's check",
	}},
	"C08": {pkgs: []string{"./pkg/bmnumbers"}, extra: func(c *checkRun) { c.regLanObligations("bmnumbers") }, notes: []string{
		"decided for clause (b), binary renderings: ExportBinaryNBits returns exactly the requested number of binary digits or an error; ExportVerilogBinary returns <bits>'b followed by binary digits, exactly <bits> of them unless the value needs more (then no leading zero); ExportBinary strips every leading zero; for byte strings of any length and any declared width",
		"decided for clause (b), hex text: Hex.ExportString always prints at least one digit after the size and no leading zero unless it is the only digit (so the sized-hex notation accepts its own output); binImportNoSize stores exactly as many bits as digits were captured, binImportWithSize never fewer",
		"decided for clause (b), importers: binImportNoSize/WithSize, hexImportNoSize/WithSize and unsignedImportNoSize/WithSize store a byte string of exactly the stated width (8*len within one byte of bits; exactly bits for hex) and never index out of range, for arbitrary captured digit strings; this is how the sized-hex defect (one byte per declared bit) was found",
		"not decided for clause (b): the values the importers store (regexp capture groups, strconv.ParseUint and hex.DecodeString are opaque), hex/decimal export, print/parse round trips through ImportString",
		"float16/float32, fixed point, FloPoCo and linear-quantiser import/export go through strconv.ParseFloat and float scaling: floating point is outside this family; only the integer notations (unsigned, signed, bin, hex) are under functional contract",
		"the regular languages are those of Go's regexp/syntax parse of the pattern strings found in the importMatchers methods; runes above U+2FFFF are clipped (SMT-LIB string alphabet)",
	}},
	"C09": {pkgs: []string{"./pkg/procbuilder", "./pkg/simbox", "./pkg/bmnumbers", "./pkg/bondmachine"}, notes: []string{
		"decided for the per-processor workers: every round of bondmachine.VM.Processor_execute (one token received, one answer sent) writes only the state of processor procId; the segments between channel operations are each checked against the loop's modifies clause, and what other goroutines may change at a channel operation is everything except the worker's own processor's fields (sync preserves)",
		"decided for the run-time type registry: bmnumbers.EventuallyCreateType, which the simulator calls for every shown value on every tick, writes nothing (type list and matcher table unchanged) when the type is already registered; the type creators themselves are trusted",
		"decided: every Opcode.Simulate (all opcode types except the nine emulator opcodes, which send on the VM's command channel) writes only cells of the VM it is given and reads only that VM and its machine description; run-time panics and callee preconditions are assumed not to occur (frameonly contracts)",
		"not decided: the goroutine scheduler, the per-tick channel barrier of bondmachine.VM.Step, GOMAXPROCS, the race detector, and simbox.DelayDistribution (draws from the process-wide math/rand source by design)",
		"DelayDistribution.GetValue is verified to write nothing (the delay model is shared by every processor and simulation); only the process-wide random source it draws from is outside the model",
		"bit-reinterpretation helpers (Int8bits..., unsafe.Pointer casts) and the fixed-point arithmetic helpers are trusted to be functions of their arguments",
	}},
	"C10": {pkgs: []string{"./pkg/bondmachine"}, notes: []string{
		"Add_bond is under contract: it writes at most one link slot, the first internal input named by one of the two endpoints, which afterwards points at the internal output named by the other; Bond.String is proved against the naming function",
		"Attach_benchmark_core / AttachBenchmarkCoreV2 are under contract: they keep the machine well formed and leave every link slot and endpoint that existed before untouched (frameonly: callee preconditions, e.g. the assembler's, are assumed). That the three new bonds address only the new processor rests on five assumed string facts (axioms nameOf*, nameLiterals in the contract file: endpoint names decode uniquely; \"i0\" is \"i\" followed by the decimal rendering of 0), which the uninterpreted string model cannot derive; sort.Sort is modelled as an arbitrary rearrangement of the sorted slice",
		"negative indices (Del_input(-1), Del_bond(-1)) panic before any mutation; 0 <= id is a precondition",
	}},
}

type knownFinding struct {
	Property   string `json:"property"`
	Obligation string `json:"obligation"`
	Status     string `json:"status"` // "known" or "fixed"
	Commit     string `json:"commit,omitempty"`
	What       string `json:"what"`
}

type checkRun struct {
	prop      string
	tier      string
	seed      int
	verifDir  string
	retried   []string
	outDir    string // where evidence/ and replay/ are written (the verification directory unless -out is given)
	repo      string
	eng       *Engine
	obls      []*Obligation
	funcs     []string
	outside   map[string]string
	missing   []string
	warnings  []string
	bounded   []string
	excluded  []string
	matchers  []matcherInfo
	knownObls map[string]bool
	canaryReplay map[string]*replayResult // what the replay of a recorded failing input showed, by canary name
	canaries  []string // known findings observed by replaying their recorded failing input (no obligation expresses them)
	start     time.Time
}

func baseName(n string) string {
	if i := strings.LastIndex(n, "~"); i >= 0 {
		if _, err := strconv.Atoi(n[i+1:]); err == nil {
			return n[:i]
		}
	}
	return n
}

func cmdCheck(args []string) {
	fs := flag.NewFlagSet("check", flag.ExitOnError)
	repo := fs.String("repo", "/repo", "repository root")
	prop := fs.String("prop", "", "property id")
	tier := fs.String("tier", "quick", "quick|thorough")
	verifDir := fs.String("verif", "/verif", "verification directory")
	outDir := fs.String("out", "", "write evidence/ and replay/ below this directory instead of the verification directory (self test)")
	updateInv := fs.Bool("update-inventory", false, "rewrite inventory/<id>.txt from this run (maintainer action, never done by a check)")
	fs.Parse(args)
	if t := os.Getenv("VERIF_TIER"); t == "quick" || t == "thorough" {
		*tier = t
	}
	seed := 0
	if s := os.Getenv("VERIF_SEED"); s != "" {
		if v, err := strconv.Atoi(s); err == nil {
			seed = v
		}
	}
	cfg := propConfigs[*prop]
	if cfg == nil {
		fmt.Fprintf(os.Stderr, "no check registered for property %q\n", *prop)
		exit(2)
	}
	if *outDir == "" {
		*outDir = *verifDir
	}
	c := &checkRun{prop: *prop, tier: *tier, seed: seed, verifDir: *verifDir, outDir: *outDir, repo: *repo, outside: map[string]string{}, start: time.Now()}
	eng, err := loadEngine(*repo, cfg.pkgs, []string{filepath.Join(*verifDir, "spec")})
	if err != nil {
		// the tree does not load (compile error, or a contract that no longer parses): undecided, reported as such
		fmt.Fprintln(os.Stderr, "bmverif: cannot load:", err)
		c.fatalViolation("load", "repository packages or contracts do not load: "+err.Error())
		return
	}
	c.eng = eng
	// functions under contract for this property
	var keys []string
	for k, fc := range eng.contracts {
		if fc.Extern || strings.HasPrefix(k, "iface:") || strings.HasPrefix(k, "functype:") {
			continue
		}
		for _, p := range fc.Props {
			if p == *prop {
				keys = append(keys, k)
			}
		}
	}
	sort.Strings(keys)
	var tasks []verifyTask
	for _, k := range keys {
		k := k
		fc := eng.contracts[k]
		if fc.Trusted {
			eng.noteAssumption("trusted (unverified) contract: " + k)
			continue
		}
		fn := eng.lookupFunc(k)
		if fn == nil {
			c.outside[k] = "function not found in the loaded packages (renamed or deleted?)"
			continue
		}
		tasks = append(tasks, verifyTask{k, func() *VC { return eng.verifyFunction(fn, fc) }})
	}
	// interface-level contracts: every implementing type's method
	var ikeys []string
	for k, fc := range eng.contracts {
		if !strings.HasPrefix(k, "iface:") {
			continue
		}
		for _, p := range fc.Props {
			if p == *prop {
				ikeys = append(ikeys, k)
			}
		}
	}
	sort.Strings(ikeys)
	for _, ik := range ikeys {
		ifc := eng.contracts[ik]
		if ifc.Trusted {
			eng.noteAssumption("trusted (unverified) interface-level contract: " + ik)
			continue
		}
		for _, fn := range eng.ifaceTargets(ik) {
			fn := fn
			fk := funcKey(fn) + "@iface"
			if why, excluded := eng.excluded[funcKey(fn)]; excluded {
				c.excluded = append(c.excluded, funcKey(fn)+": "+why)
				continue
			}
			tasks = append(tasks, verifyTask{fk, func() *VC { return eng.verifyAgainstIface(fn, ifc, eng.contracts[funcKey(fn)]) }})
		}
	}
	// function-type contracts: every anonymous function of that signature in the package
	for k, fc := range eng.contracts {
		if !strings.HasPrefix(k, "functype:") {
			continue
		}
		use := false
		for _, p := range fc.Props {
			if p == *prop {
				use = true
			}
		}
		if !use {
			continue
		}
		fc := fc
		for _, fn := range eng.functypeTargets(k) {
			fn := fn
			tasks = append(tasks, verifyTask{funcKey(fn) + "@functype", func() *VC { return eng.verifyAgainstIface(fn, fc, nil) }})
		}
	}
	vcs := runTasks(tasks, 8)
	for i, vc := range vcs {
		k := tasks[i].key
		if vc.outside != "" {
			c.outside[k] = vc.outside
			continue
		}
		c.funcs = append(c.funcs, k)
		for _, w := range vc.warnings {
			c.warnings = append(c.warnings, k+": "+w)
		}
		c.obls = append(c.obls, vc.obls...)
	}
	nFuncObls := len(c.obls)
	if cfg.extra != nil {
		cfg.extra(c)
	}
	extraObls := append([]*Obligation(nil), c.obls[nFuncObls:]...)
	// discharge
	scratch := scratchDir()
	defer os.RemoveAll(scratch)
	opts := solveOpts{timeoutS: 30, seed: seed, scratch: scratch, workers: 14}
	if *tier == "thorough" {
		opts.timeoutS = 60
		opts.needTwo = true
		opts.workers = 8
	}
	solveAll(c.obls, opts)
	// Second chance: a function whose proof did not go through for lack of an answer (timeout/unknown - never a
	// counterexample) is generated and solved once more, alone and with three times the time, so that a loaded machine
	// does not turn into an alarm. A proof that still does not go through is reported.
	var again []int
	for i, vc := range vcs {
		if vc.outside != "" {
			continue
		}
		undecided, refuted := false, false
		for _, o := range vc.obls {
			if o.ok() {
				continue
			}
			if o.Result == "sat" || o.Result == "disagree" || (o.ExpectSat && o.Result == "unsat") {
				refuted = true
			} else {
				undecided = true
			}
		}
		if undecided && !refuted {
			again = append(again, i)
		}
	}
	if len(again) > 0 && len(again) <= 16 {
		houdiniTimeoutS = 30
		opts2 := opts
		opts2.timeoutS = opts.timeoutS * 2
		for _, alt := range []int{0, seed + 101, seed + 202} {
			if alt != seed {
				opts2.altSeeds = append(opts2.altSeeds, alt)
			}
		}
		for _, i := range again {
			bad1 := 0
			for _, o := range vcs[i].obls {
				if !o.ok() {
					bad1++
				}
			}
			if bad1 > 12 {
				continue // that many open obligations in one function are not a matter of solver luck
			}
			vc2 := tasks[i].run()
			if vc2.outside != "" {
				continue
			}
			solveAll(vc2.obls, opts2)
			bad2 := 0
			for _, o := range vc2.obls {
				if !o.ok() {
					bad2++
				}
			}
			c.retried = append(c.retried, fmt.Sprintf("%s: %d undischarged at %ds, %d at %ds with additional solver seeds", tasks[i].key, bad1, opts.timeoutS, bad2, opts2.timeoutS))
			if bad2 < bad1 {
				vcs[i] = vc2
			}
		}
		// Third chance (a loaded machine): what is still open only because every solver ran out of time - no
		// counterexample, no "unknown" - is asked once more, those queries alone, a few at a time, with four times
		// the time. Only for a handful of obligations: more than that is not a matter of machine load.
		var late []*Obligation
		for _, i := range again {
			refuted := false
			var open []*Obligation
			for _, o := range vcs[i].obls {
				if o.ok() {
					continue
				}
				if o.Result == "timeout" && !o.ExpectSat {
					open = append(open, o)
				} else {
					refuted = true
				}
			}
			if !refuted {
				late = append(late, open...)
			}
		}
		if len(late) > 0 && len(late) <= 8 {
			opts3 := opts2
			opts3.timeoutS = opts.timeoutS * 4
			for k := 0; k < len(late); k += 3 {
				end := k + 3
				if end > len(late) {
					end = len(late)
				}
				solveAll(late[k:end], opts3)
			}
			left := 0
			for _, o := range late {
				if !o.ok() {
					left++
				}
			}
			c.retried = append(c.retried, fmt.Sprintf("third chance: %d obligations open by timeout only, %d still open at %ds", len(late), left, opts3.timeoutS))
		}
		houdiniTimeoutS = 8
		c.obls = c.obls[:0]
		for _, vc := range vcs {
			if vc.outside == "" {
				c.obls = append(c.obls, vc.obls...)
			}
		}
		c.obls = append(c.obls, extraObls...)
	}
	if *tier == "thorough" {
		// a single-solver unsat is accepted when the other solvers gave no answer (never when one said sat)
		for _, o := range c.obls {
			if o.Result == "unsat-single" {
				o.Result = "unsat"
				o.Solver += " (single)"
			}
		}
	}
	// inventory guard
	invPath := filepath.Join(*verifDir, "inventory", *prop+".txt")
	have := map[string]bool{}
	for _, o := range c.obls {
		if strings.Contains(o.Name, "#lemma[matchers_disjoint:") {
			continue // named after the pattern texts, which legitimately change; guarded by the pattern count instead
		}
		have[baseName(o.Name)] = true
	}
	if *updateInv {
		var names []string
		for n := range have {
			names = append(names, n)
		}
		sort.Strings(names)
		os.MkdirAll(filepath.Dir(invPath), 0o755)
		os.WriteFile(invPath, []byte(strings.Join(names, "\n")+"\n"), 0o644)
	}
	if data, err := os.ReadFile(invPath); err == nil {
		for _, n := range strings.Split(string(data), "\n") {
			n = strings.TrimSpace(n)
			if n != "" && !have[n] {
				c.missing = append(c.missing, n)
			}
		}
	} else {
		c.missing = append(c.missing, "(inventory file "+invPath+" missing)")
	}
	c.report(cfg)
}

func (c *checkRun) loadKnown() []knownFinding {
	var out []knownFinding
	data, err := os.ReadFile(filepath.Join(c.verifDir, "known_findings.json"))
	if err != nil {
		return nil
	}
	var doc struct {
		Findings []knownFinding `json:"findings"`
	}
	if json.Unmarshal(data, &doc) == nil {
		out = doc.Findings
	}
	return out
}

func (c *checkRun) replayDir() string {
	d := filepath.Join(c.outDir, "replay", c.prop)
	os.MkdirAll(d, 0o755)
	return d
}

func (c *checkRun) fatalViolation(name, msg string) {
	path := filepath.Join(c.replayDir(), sanitize(name)+".json")
	doc := map[string]interface{}{"property": c.prop, "obligation": name, "status": "undecided", "reason": msg}
	b, _ := json.MarshalIndent(doc, "", " ")
	os.WriteFile(path, b, 0o644)
	c.writeEvidence(nil, 1, []string{msg})
	fmt.Printf("VIOLATION property=%s replay=%s no-failing-input-found\n", c.prop, path)
	exit(1)
}

func (c *checkRun) report(cfg *propConfig) {
	known := c.loadKnown()
	isKnown := func(name string) *knownFinding {
		for i := range known {
			k := &known[i]
			if k.Property == c.prop && k.Status == "known" && k.Obligation == baseName(name) {
				return k
			}
		}
		return nil
	}
	type viol struct {
		name   string
		obls   []*Obligation
		reason string
	}
	violBy := map[string]*viol{}
	var order []string
	add := func(name, reason string, o *Obligation) {
		b := baseName(name)
		v := violBy[b]
		if v == nil {
			v = &viol{name: b, reason: reason}
			violBy[b] = v
			order = append(order, b)
		}
		if o != nil {
			v.obls = append(v.obls, o)
		}
	}
	knownSeen := map[string]*knownFinding{}
	for _, o := range c.obls {
		if o.ok() {
			continue
		}
		if k := isKnown(o.Name); k != nil {
			knownSeen[k.Obligation] = k
			continue
		}
		add(o.Name, "obligation not discharged: "+o.Result, o)
	}
	for k, why := range c.outside {
		if kf := isKnown(k + "#outside-subset"); kf != nil {
			knownSeen[kf.Obligation] = kf
			continue
		}
		add(k+"#outside-subset", "function left the verifiable subset, its obligations were not generated: "+why, nil)
	}
	for _, m := range c.missing {
		if kf := isKnown(m); kf != nil {
			continue
		}
		if _, failed := violBy[m]; failed {
			continue
		}
		fn := m
		if i := strings.Index(m, "#"); i >= 0 {
			fn = m[:i]
		}
		if _, out := c.outside[fn]; out {
			continue // already reported through the function
		}
		add(m, "expected obligation was not generated on this tree (function or contract clause gone)", nil)
	}
	for _, name := range c.canaries {
		if k := isKnown(name); k != nil {
			knownSeen[k.Obligation] = k
		} else {
			if strings.Contains(name, "#bounded[") {
				add(name, "bounded exhaustive check (stated bound, not a proof) found a failing input on the real code", nil)
			} else {
				add(name, "replay of a recorded failing input still fails and the finding is not listed", nil)
			}
		}
	}
	for _, k := range sortedKeys(knownSeen) {
		fmt.Printf("KNOWN-FINDING: property=%s %s — %s\n", c.prop, k, knownSeen[k].What)
	}
	nviol := 0
	for _, b := range order {
		v := violBy[b]
		nviol++
		path := filepath.Join(c.replayDir(), sanitize(b)+".json")
		doc := map[string]interface{}{"property": c.prop, "obligation": b, "reason": v.reason}
		replayed := false
		var outs []map[string]interface{}
		for _, o := range v.obls {
			outs = append(outs, map[string]interface{}{"name": o.Name, "result": o.Result, "detail": o.Detail, "pos": o.Pos, "solver_output": truncateOut(o.Output, 4000)})
		}
		doc["instances"] = outs
		if len(v.obls) > 0 {
			o := v.obls[0]
			doc["clause"] = o.Detail
			doc["source"] = o.Pos
			// keep the SMT query next to the replay file
			smt := strings.TrimSuffix(path, ".json") + ".smt2"
			os.WriteFile(smt, []byte(o.vc0script()), 0o644)
			doc["smt_query"] = smt
			if rr := c.tryReplay(v.obls); rr != nil {
				doc["replay"] = rr
				replayed = rr.Confirmed
			}
		}
		if rr := c.canaryReplay[b]; rr != nil {
			doc["replay"] = rr
			replayed = rr.Confirmed
		}
		doc["failing_input_found"] = replayed
		bts, _ := json.MarshalIndent(doc, "", " ")
		os.WriteFile(path, bts, 0o644)
		suffix := ""
		if !replayed {
			suffix = " no-failing-input-found"
		}
		fmt.Printf("VIOLATION property=%s replay=%s%s\n", c.prop, path, suffix)
		fmt.Printf("  obligation %s: %s\n", b, v.reason)
	}
	c.knownObls = map[string]bool{}
	for _, o := range c.obls {
		if !o.ok() && isKnown(o.Name) != nil {
			c.knownObls[o.Name] = true
		}
	}
	c.writeEvidence(cfg, nviol, nil)
	total, ok := 0, 0
	for _, o := range c.obls {
		total++
		if o.ok() {
			ok++
		}
	}
	fmt.Printf("property %s (%s): %d functions under contract, %d/%d obligations discharged, %d violations, %d known findings, %.1fs\n",
		c.prop, c.tier, len(c.funcs), ok, total, nviol, len(knownSeen), time.Since(c.start).Seconds())
	if nviol > 0 {
		exit(1)
	}
}

func (o *Obligation) vc0script() string {
	if o.vc == nil {
		return o.Script
	}
	return o.vc.finalScript(o, true)
}

func (c *checkRun) writeEvidence(cfg *propConfig, nviol int, extraAssumptions []string) {
	total, discharged, probes := 0, 0, 0
	bySolver := map[string]int{}
	byKind := map[string]int{}
	secs := 0.0
	var samples []map[string]interface{}
	probeRes := map[string]int{}
	var knownFailing []string
	for _, o := range c.obls {
		if o.ExpectSat {
			probes++
			probeRes[o.Result]++
			continue
		}
		if c.knownObls[o.Name] {
			knownFailing = append(knownFailing, o.Name)
			continue // a listed known finding: reported separately, not part of the proved set
		}
		total++
		byKind[o.Kind]++
		if o.ok() {
			discharged++
			bySolver[o.Solver]++
		}
		secs += o.Seconds
	}
	// samples: a few real obligations with their goal text
	step := 1
	if total > 6 {
		step = total / 6
	}
	i := 0
	for _, o := range c.obls {
		if o.ExpectSat {
			continue
		}
		if i%step == 0 && len(samples) < 8 && o.Script != "" {
			goal := o.Script
			if k := strings.LastIndex(goal, "(assert (not "); k >= 0 {
				goal = goal[k:]
			}
			samples = append(samples, map[string]interface{}{"obligation": o.Name, "kind": o.Kind, "clause": o.Detail, "source": o.Pos, "result": o.Result, "solver": o.Solver, "negated_goal_smt": truncateOut(strings.TrimSpace(goal), 700)})
		}
		i++
	}
	if len(samples) == 0 {
		samples = append(samples, map[string]interface{}{"note": "no obligations generated"})
	}
	var assumptions []string
	if c.eng != nil {
		assumptions = append(assumptions, sortedKeys(c.eng.assumptions)...)
		for _, l := range c.eng.scan {
			assumptions = append(assumptions, "declared in contract files: "+l)
		}
	}
	assumptions = append(assumptions,
		"T1: the go/ssa -> SMT translation of bmverif (DESIGN section 2.4): integers are mathematical Int with explicit N-bit wrap-around (not idealised); strings are an uninterpreted sort with axioms; slices/heap in Burstall style with per-type heap maps",
		"T4: an obligation counts as discharged on `unsat` from z3 5.1.0, z3 4.8.12 or cvc5 1.0 (thorough: two of them where both answer)",
		"termination of functions is only checked for loops with a decreases clause",
		"panics inside callees without contract, stack overflow and out-of-memory are not modelled")
	if cfg != nil {
		for _, n := range cfg.notes {
			assumptions = append(assumptions, "not decided by this check: "+n)
		}
	}
	assumptions = append(assumptions, extraAssumptions...)
	for _, w := range c.warnings {
		assumptions = append(assumptions, "warning: "+w)
	}
	for k, why := range c.outside {
		assumptions = append(assumptions, "outside subset (counted as violation unless known): "+k+": "+why)
	}
	trusted := []string{"bmverif VC generator (this repository, /verif/bmverif)", "golang.org/x/tools/go/ssa v0.29.0", "z3 5.1.0, z3 4.8.12, cvc5 1.0", "stdlib contracts in /verif/spec/*.spec (assumed)"}
	cov := map[string]interface{}{
		"obligations":              total,
		"discharged":               discharged,
		"checker_cmd":              fmt.Sprintf("/verif/bin/bmverif check -prop %s -tier %s", c.prop, c.tier),
		"trusted_base":             trusted,
		"functions_under_contract": c.funcs,
		"obligations_by_kind":      byKind,
		"discharged_by_backend":    bySolver,
		"solver_seconds":           secs,
		"vacuity_probes":           probes,
		"second_chance_functions":  c.retried,
		"vacuity_probe_results":    probeRes,
		"inventory_missing":        c.missing,
		"known_finding_obligations": knownFailing,
		"excluded_by_name":         c.excluded,
		"bounded_items":            c.bounded,
		"samples":                  samples,
		"exhaustive":               false,
		"evaluations":              total,
		"distinct_nontrivial":      discharged,
		"rule":                     "one SMT query per proof obligation (safety, call precondition, loop invariant entry/preservation/variant, postcondition clause per return path, frame); non-trivial = needed a solver (syntactically true goals are counted separately as solver 'trivial')",
	}
	ev := map[string]interface{}{
		"property_id": c.prop,
		"tier":        c.tier,
		"seed":        c.seed,
		"level":       "proof",
		"coverage":    cov,
		"assumptions": assumptions,
		"wall_s":      time.Since(c.start).Seconds(),
		"violations":  nviol,
	}
	os.MkdirAll(filepath.Join(c.outDir, "evidence"), 0o755)
	b, _ := json.MarshalIndent(ev, "", " ")
	os.WriteFile(filepath.Join(c.outDir, "evidence", c.prop+".json"), b, 0o644)
}

type replayResult struct {
	Confirmed bool   `json:"confirmed"`
	Input     string `json:"input,omitempty"`
	Observed  string `json:"observed,omitempty"`
	Note      string `json:"note,omitempty"`
	Test      string `json:"test_file,omitempty"`
}

// tryReplay is filled in per property (replay.go); nil means no replay harness exists.
func (c *checkRun) tryReplay(obls []*Obligation) *replayResult {
	if f := replayers[c.prop]; f != nil {
		return f(c, obls)
	}
	return nil
}

var replayers = map[string]func(c *checkRun, obls []*Obligation) *replayResult{}

// ---------------------------------------------------------------------------
// Parallel generation (each function has its own VC; the engine's shared tables are locked).

type verifyTask struct {
	key string
	run func() *VC
}

func runTasks(tasks []verifyTask, par int) []*VC {
	out := make([]*VC, len(tasks))
	sem := make(chan struct{}, par)
	done := make(chan struct{}, len(tasks))
	for i := range tasks {
		sem <- struct{}{}
		go func(i int) {
			defer func() { <-sem; done <- struct{}{} }()
			out[i] = tasks[i].run()
		}(i)
	}
	for range tasks {
		<-done
	}
	return out
}
