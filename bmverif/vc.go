package main

// VC context: script accumulation, heap model, locations, obligations.

import (
	"fmt"
	"go/types"
	"sort"
	"strings"

	"golang.org/x/tools/go/ssa"
)

type Obligation struct {
	Name      string `json:"name"`
	Kind      string `json:"kind"`
	Func      string `json:"func"`
	Detail    string `json:"detail,omitempty"`
	Pos       string `json:"pos,omitempty"`
	ExpectSat bool   `json:"expect_sat,omitempty"`
	Script    string `json:"-"`
	Result    string `json:"result,omitempty"` // unsat/sat/unknown/timeout
	Solver    string `json:"solver,omitempty"`
	Seconds   float64 `json:"seconds,omitempty"`
	Model     string `json:"-"`
	Output    string `json:"-"`
	Props     []string `json:"-"`
	// for replay
	fn *ssa.Function
	vc *VC
}

const (
	heapField  = "field"
	heapElem   = "elem"
	heapDeref  = "deref"
	heapGhost  = "ghost"
	heapGlobal = "global"
	heapMapHas = "maphas"
	heapMapVal = "mapval"
)

type heapInfo struct {
	name    string
	kind    string
	sort    string     // SMT sort of the whole heap map
	valType types.Type // Go type of stored values (nil for ghost with spec sort)
	valSort string
	levels  int // 1: Array Int V ; 2: Array Int (Array K V); 0: plain cell (global)
	keySort string
}

type State struct {
	locals  map[*ssa.Alloc]string
	heap    map[string]string
	epoch   int
	nextRef string
	// syncBase: inside a loop with a declared modifies clause, the state right after the last synchronisation point
	// (channel operation) on this path, or the loop-head state when there was none: the baseline of the frame check
	// for the current segment (what other goroutines changed at a synchronisation point is not this function's write)
	syncBase map[*ssa.BasicBlock]*State // per enclosing loop (keyed by its header)
}

func (s *State) clone() *State {
	n := &State{locals: make(map[*ssa.Alloc]string, len(s.locals)), heap: make(map[string]string, len(s.heap)), epoch: s.epoch, nextRef: s.nextRef}
	if len(s.syncBase) > 0 {
		n.syncBase = make(map[*ssa.BasicBlock]*State, len(s.syncBase))
		for k, v := range s.syncBase {
			n.syncBase[k] = v
		}
	}
	for k, v := range s.locals {
		n.locals[k] = v
	}
	for k, v := range s.heap {
		n.heap[k] = v
	}
	return n
}

type pathElem struct {
	field int
	idx   string
	isIdx bool
	typ   types.Type // type of the container at this step (struct or array)
}

const (
	locLocal = iota
	locField
	locElem
	locDeref
	locGlobal
)

type Loc struct {
	kind    int
	alloc   *ssa.Alloc
	heap    string
	ref     string
	idx     string
	rootTyp types.Type
	path    []pathElem
	typ     types.Type
}

type VC struct {
	eng    *Engine
	fn     *ssa.Function
	fkey   string
	sorts  *Sorts
	decls  []string
	lines  []string
	declared map[string]bool
	heaps  map[string]*heapInfo
	epochBound map[int]string
	epochBlk   map[int]int
	nfresh int
	strLits map[string]string
	usesStrings bool
	obls   []*Obligation
	oblNames map[string]int
	vals   map[ssa.Value]Val
	locs   map[ssa.Value]*Loc
	tuples map[ssa.Value][]Val
	entry  *State
	contract *FuncContract
	outside string // non-empty: function left the supported subset (reason)
	warnings []string
	tids   map[string]int
	props  []string
	quantDepth int
	idxUses    map[string][]string // during pass 1 of a quantifier: bound variable -> slice terms it indexes
	qvarNames  map[string]string // SMT binder name -> source name
	plainUses  map[string]bool
	curBinders []string
	versions   map[string]string
	paramAlias map[string]ssa.Value // contract parameter names of an interface-level contract -> this method's parameters
	tag        string               // suffix for obligation names when a function is verified against several contracts
	autoDrop   map[string]bool      // inferred candidate invariants refuted in an earlier Houdini round
	lineBlk    []int          // block index each line was generated in (-1: function entry / global)
	curBlk     int
	ancestors  map[int]map[int]bool // block -> set of blocks that can reach it (forward edges only), incl. itself
}

func newVC(eng *Engine, fn *ssa.Function) *VC {
	return &VC{eng: eng, fn: fn, fkey: funcKey(fn), sorts: newSorts(), declared: map[string]bool{}, heaps: map[string]*heapInfo{},
		epochBound: map[int]string{}, epochBlk: map[int]int{}, strLits: map[string]string{}, oblNames: map[string]int{}, vals: map[ssa.Value]Val{},
		locs: map[ssa.Value]*Loc{}, tuples: map[ssa.Value][]Val{}, tids: map[string]int{}, qvarNames: map[string]string{}, curBlk: -1, ancestors: map[int]map[int]bool{}}
}

func (vc *VC) fresh(prefix string) string {
	vc.nfresh++
	return fmt.Sprintf("%s!%d", sanitize(prefix), vc.nfresh)
}

func (vc *VC) declConst(name, sort string) {
	if vc.declared[name] {
		return
	}
	vc.declared[name] = true
	vc.addLine(fmt.Sprintf("(declare-const %s %s)", name, sort))
}
func (vc *VC) declFun(name string, args []string, ret string) {
	if vc.declared[name] {
		return
	}
	vc.declared[name] = true
	vc.decls = append(vc.decls, fmt.Sprintf("(declare-fun %s (%s) %s)", name, strings.Join(args, " "), ret))
}
func (vc *VC) freshConst(prefix, sort string) string {
	n := vc.fresh(prefix)
	vc.declConst(n, sort)
	return n
}
func (vc *VC) define(prefix, sort, term string) string {
	// name a term (keeps scripts DAG-shaped)
	if len(term) < 40 {
		return term
	}
	n := vc.fresh(prefix)
	vc.declared[n] = true
	vc.addLine(fmt.Sprintf("(define-fun %s () %s %s)", n, sort, term))
	return n
}
func (vc *VC) assume(cond string, f string) {
	if f == "true" {
		return
	}
	vc.addLine("(assert "+sImp(cond, f)+")")
}
func (vc *VC) addLine(l string) {
	vc.lines = append(vc.lines, l)
	vc.lineBlk = append(vc.lineBlk, vc.curBlk)
}

// relevantLines: the lines generated at function entry or in blocks that can reach the current block.
func (vc *VC) relevantLines() string {
	anc := vc.ancestors[vc.curBlk]
	if vc.curBlk < 0 || anc == nil {
		return strings.Join(vc.lines, "\n")
	}
	var b strings.Builder
	for i, l := range vc.lines {
		if blk := vc.lineBlk[i]; blk < 0 || anc[blk] {
			b.WriteString(l)
			b.WriteByte('\n')
		}
	}
	return b.String()
}

func (vc *VC) comment(s string) {
	vc.addLine("; "+strings.ReplaceAll(s, "\n", " "))
}

func (vc *VC) unsupported(format string, a ...interface{}) {
	if vc.outside == "" {
		vc.outside = fmt.Sprintf(format, a...)
	}
}

// oblige records a proof obligation: under the assumptions so far, cond ⇒ goal.
func (vc *VC) oblige(name, kind, cond, goal, detail string, pos string) *Obligation {
	if vc.contract != nil && vc.contract.FrameOnly && (kind == "safety" || kind == "pre") {
		return nil // assumed, not checked (frameonly contract)
	}
	full := vc.fkey + vc.tag + "#" + name
	vc.oblNames[full]++
	if n := vc.oblNames[full]; n > 1 {
		full = fmt.Sprintf("%s~%d", full, n)
	}
	o := &Obligation{Name: full, Kind: kind, Func: vc.fkey, Detail: detail, Pos: pos, fn: vc.fn, vc: vc, Props: vc.props}
	if goal == "true" {
		// trivially discharged; still recorded with an empty script marker
		o.Script = ""
		o.Result = "unsat"
		o.Solver = "trivial"
		vc.obls = append(vc.obls, o)
		return o
	}
	o.Script = vc.relevantLines() + "\n(assert (not " + sImp(cond, goal) + "))\n"
	vc.obls = append(vc.obls, o)
	return o
}

// probe records a satisfiability probe (vacuity guard): assumptions ∧ cond must be sat.
func (vc *VC) probe(name, cond, detail string) {
	full := vc.fkey + vc.tag + "#" + name
	o := &Obligation{Name: full, Kind: "vacuity", Func: vc.fkey, Detail: detail, ExpectSat: true, fn: vc.fn, vc: vc, Props: vc.props}
	o.Script = vc.relevantLines() + "\n(assert " + cond + ")\n"
	vc.obls = append(vc.obls, o)
}

// finalScript wraps an obligation body with prelude and declarations known at the end of generation.
func (vc *VC) finalScript(o *Obligation, produceModels bool) string {
	var b strings.Builder
	if produceModels {
		b.WriteString("(set-option :produce-models true)\n")
	}
	b.WriteString("(set-logic ALL)\n")
	b.WriteString(preludeBase())
	b.WriteString("(declare-const flt.zero Flt)\n")
	body := strings.Join(vc.decls, "\n") + "\n" + o.Script
	usesStr := strings.Contains(body, "gs.")
	if usesStr || strings.Contains(body, "pow2big") {
		b.WriteString(preludePow2big())
	}
	if usesStr {
		b.WriteString(preludeStrings())
	}
	usesFields := strings.Contains(body, "gs.nf") || strings.Contains(body, "gs.fld")
	if usesFields {
		b.WriteString(preludeFields())
	}
	b.WriteString(preludeArith(strings.Contains(body, "(bitand ") || strings.Contains(body, "(bitor ")))
	b.WriteString(vc.sorts.decls())
	for _, d := range vc.decls {
		b.WriteString(d)
		b.WriteString("\n")
	}
	b.WriteString(o.Script)
	b.WriteString("(check-sat)\n")
	if produceModels {
		b.WriteString("(get-model)\n")
	}
	return b.String()
}

func preludeArith(bitAxioms bool) string {
	s := `(define-fun absI ((x Int)) Int (ite (>= x 0) x (- x)))
(define-fun tdiv ((x Int) (y Int)) Int (ite (= y 0) 0 (ite (= (>= x 0) (> y 0)) (div (absI x) (absI y)) (- (div (absI x) (absI y))))))
(define-fun trem ((x Int) (y Int)) Int (- x (* y (tdiv x y))))
(declare-fun bitand (Int Int) Int)
(declare-fun bitor (Int Int) Int)
(declare-fun bitxor (Int Int) Int)
(declare-fun gs.lt (Str Str) Bool)
`
	if bitAxioms {
		s += `(assert (forall ((x Int) (y Int)) (! (=> (and (>= x 0) (>= y 0)) (and (<= 0 (bitand x y)) (<= (bitand x y) x) (<= (bitand x y) y))) :pattern ((bitand x y)))))
(assert (forall ((x Int) (y Int)) (! (=> (and (>= x 0) (>= y 0)) (and (<= x (bitor x y)) (<= y (bitor x y)) (<= (bitor x y) (+ x y)))) :pattern ((bitor x y)))))
`
	}
	return s
}

// ---------------------------------------------------------------------------
// Heap

func (vc *VC) heapDecl(hi *heapInfo) *heapInfo {
	if old, ok := vc.heaps[hi.name]; ok {
		return old
	}
	switch hi.levels {
	case 0:
		hi.sort = hi.valSort
	case 1:
		hi.sort = "(Array Int " + hi.valSort + ")"
	case 2:
		ks := hi.keySort
		if ks == "" {
			ks = "Int"
		}
		hi.sort = "(Array Int (Array " + ks + " " + hi.valSort + "))"
	}
	vc.heaps[hi.name] = hi
	vc.eng.registerHeap(hi)
	return hi
}

func (vc *VC) fieldHeap(structT types.Type, idx int) *heapInfo {
	st := structT.Underlying().(*types.Struct)
	f := st.Field(idx)
	name := "HF_" + typeKey(structT) + "__" + sanitize(f.Name())
	if hi, ok := vc.heaps[name]; ok {
		return hi
	}
	return vc.heapDecl(&heapInfo{name: name, kind: heapField, valType: f.Type(), valSort: vc.sorts.sortOf(f.Type()), levels: 1})
}
func (vc *VC) elemHeap(elemT types.Type) *heapInfo {
	name := "HE_" + typeKey(elemT)
	if hi, ok := vc.heaps[name]; ok {
		return hi
	}
	return vc.heapDecl(&heapInfo{name: name, kind: heapElem, valType: elemT, valSort: vc.sorts.sortOf(elemT), levels: 2})
}
func (vc *VC) derefHeap(t types.Type) *heapInfo {
	name := "HD_" + typeKey(t)
	if hi, ok := vc.heaps[name]; ok {
		return hi
	}
	return vc.heapDecl(&heapInfo{name: name, kind: heapDeref, valType: t, valSort: vc.sorts.sortOf(t), levels: 1})
}
func (vc *VC) globalHeap(g *ssa.Global) *heapInfo {
	name := "HGl_" + sanitize(g.Pkg.Pkg.Name()+"."+g.Name())
	if hi, ok := vc.heaps[name]; ok {
		return hi
	}
	t := g.Type().(*types.Pointer).Elem()
	return vc.heapDecl(&heapInfo{name: name, kind: heapGlobal, valType: t, valSort: vc.sorts.sortOf(t), levels: 0})
}
func (vc *VC) mapHeaps(mt *types.Map) (*heapInfo, *heapInfo) {
	k := typeKey(mt.Key()) + "_" + typeKey(mt.Elem())
	has := vc.heapDecl(&heapInfo{name: "HMh_" + k, kind: heapMapHas, valSort: "Bool", levels: 2, keySort: vc.sorts.sortOf(mt.Key())})
	val := vc.heapDecl(&heapInfo{name: "HMv_" + k, kind: heapMapVal, valType: mt.Elem(), valSort: vc.sorts.sortOf(mt.Elem()), levels: 2, keySort: vc.sorts.sortOf(mt.Key())})
	return has, val
}
func (vc *VC) ghostHeap(structT types.Type, g *GhostField) (*heapInfo, error) {
	name := "HG_" + typeKey(structT) + "__" + sanitize(g.Name)
	if hi, ok := vc.heaps[name]; ok {
		return hi, nil
	}
	t, err := vc.eng.resolveType(g.Type, g.Pkg)
	if err != nil {
		return nil, err
	}
	// ghost maps are total SMT arrays: map[K]V → (Array K V); nested maps nest.
	return vc.heapDecl(&heapInfo{name: name, kind: heapGhost, valType: t, valSort: vc.ghostSort(t), levels: 1}), nil
}
// Engine-level ghost state (never written by the code, excluded from frame checks like declared ghost fields):
//   - evalcount / evaltrue / evalfalse: how many times each function value has been called through a function type
//     under contract, and how many of those calls returned true / false (spec terms evalcount(f), evaltrue(f),
//     evalfalse(f)); incremented at such a call, only allowed to grow at every other impure call;
//   - visited_n: the set of keys the n-th map iteration of the function has produced so far (spec term visited(k)
//     in the invariants of that range loop).
// Both are only materialised for functions whose contract mentions them (mentions()).
func (vc *VC) evalCountHeap() *heapInfo {
	return vc.heapDecl(&heapInfo{name: "HG_evalcount", kind: heapGhost, valSort: "(Array Int Int)", levels: 0})
}
func (vc *VC) evalHeaps() []*heapInfo {
	return []*heapInfo{vc.evalCountHeap(),
		vc.heapDecl(&heapInfo{name: "HG_evaltrue", kind: heapGhost, valSort: "(Array Int Int)", levels: 0}),
		vc.heapDecl(&heapInfo{name: "HG_evalfalse", kind: heapGhost, valSort: "(Array Int Int)", levels: 0})}
}
func (fc *FuncContract) mentionsEval() bool {
	return fc.mentions("evalcount(") || fc.mentions("evaltrue(") || fc.mentions("evalfalse(")
}
func (vc *VC) visitedHeap(n int, keySort string) *heapInfo {
	return vc.heapDecl(&heapInfo{name: fmt.Sprintf("HG_visited_%s_%d", sanitize(keySort), n), kind: heapGhost, valSort: "(Array " + keySort + " Bool)", levels: 0, keySort: keySort})
}

// mentions reports whether any clause of the contract contains the given text.
func (fc *FuncContract) mentions(what string) bool {
	if fc == nil {
		return false
	}
	for _, c := range fc.Requires {
		if strings.Contains(c.Text, what) {
			return true
		}
	}
	for _, c := range fc.Ensures {
		if strings.Contains(c.Text, what) {
			return true
		}
	}
	for _, l := range fc.Loops {
		for _, c := range l.Invariants {
			if strings.Contains(c.Text, what) {
				return true
			}
		}
	}
	return false
}

func (vc *VC) ghostSort(t types.Type) string {
	if m, ok := t.Underlying().(*types.Map); ok {
		return "(Array " + vc.sorts.sortOf(m.Key()) + " " + vc.ghostSort(m.Elem()) + ")"
	}
	return vc.sorts.sortOf(t)
}

// declare a fresh version of a heap map whose contents satisfy the type invariants with refs below bound.
func (vc *VC) freshHeapVersion(hi *heapInfo, term string, bound string) {
	if vc.declared[term] {
		return
	}
	vc.declConst(term, hi.sort)
	if hi.valType == nil || hi.kind == heapGhost {
		return
	}
	switch hi.levels {
	case 0:
		vc.assume("true", vc.sorts.typeInv(hi.valType, term, bound))
	case 1:
		// contents are well typed everywhere; the reference bound (everything an existing object points to exists)
		// is stated only for objects that exist at this version: cells of objects allocated later (e.g. by a callee
		// that returns a fresh structure) are not constrained by it
		x := "(select " + term + " r!)"
		inv := vc.sorts.typeInv(hi.valType, x, "")
		if b := vc.sorts.typeInv(hi.valType, x, bound); b != inv && bound != "" {
			inv = sAnd(inv, sImp("(< r! "+bound+")", b))
		}
		if inv != "true" {
			vc.addLine(fmt.Sprintf("(assert (forall ((r! Int)) (! %s :pattern ((select %s r!)))))", inv, term))
		}
	case 2:
		ks := hi.keySort
		if ks == "" {
			ks = "Int"
		}
		x := "(select (select " + term + " r!) i!)"
		inv := vc.sorts.typeInv(hi.valType, x, "")
		if b := vc.sorts.typeInv(hi.valType, x, bound); b != inv && bound != "" {
			inv = sAnd(inv, sImp("(< r! "+bound+")", b))
		}
		if inv != "true" {
			vc.addLine(fmt.Sprintf("(assert (forall ((r! Int) (i! %s)) (! %s :pattern ((select (select %s r!) i!)))))", ks, inv, term))
		}
	}
}

func (vc *VC) heapGet(st *State, hi *heapInfo) string {
	if t, ok := st.heap[hi.name]; ok {
		return t
	}
	term := fmt.Sprintf("%s_e%d", hi.name, st.epoch)
	if !vc.declared[term] {
		// the version belongs to the block that created the epoch (function entry for epoch 0), not to the
		// block that happens to touch it first
		save := vc.curBlk
		if b, ok := vc.epochBlk[st.epoch]; ok {
			vc.curBlk = b
		} else {
			vc.curBlk = -1
		}
		vc.freshHeapVersion(hi, term, vc.epochBound[st.epoch])
		vc.curBlk = save
	}
	return term
}
func (vc *VC) heapSet(st *State, hi *heapInfo, term string) {
	st.heap[hi.name] = vc.define(hi.name, hi.sort, term)
}
func (vc *VC) heapHavoc(st *State, hi *heapInfo) string {
	term := vc.fresh(hi.name)
	vc.freshHeapVersion(hi, term, st.nextRef)
	st.heap[hi.name] = term
	return term
}
func (vc *VC) havocAllHeap(st *State) {
	// new epoch: every heap map becomes an unconstrained fresh version
	nr := vc.freshConst("nextRef", "Int")
	vc.assume("true", "(>= "+nr+" "+st.nextRef+")")
	st.nextRef = nr
	st.heap = map[string]string{}
	vc.nfresh++
	st.epoch = vc.nfresh
	vc.epochBound[st.epoch] = nr
	vc.epochBlk[st.epoch] = vc.curBlk
}

func (vc *VC) allocRef(st *State) string {
	r := vc.define("ref", "Int", st.nextRef)
	if r == st.nextRef {
		r2 := vc.fresh("ref")
		vc.declared[r2] = true
		vc.addLine(fmt.Sprintf("(define-fun %s () Int %s)", r2, st.nextRef))
		r = r2
	}
	nr := vc.fresh("nextRef")
	vc.declared[nr] = true
	vc.addLine(fmt.Sprintf("(define-fun %s () Int (+ %s 1))", nr, r))
	st.nextRef = nr
	return r
}

// ---------------------------------------------------------------------------
// Address functions for struct-typed fields of heap structs (interior pointers).

// interiorRef: the reference of the struct-typed field idx nested by value in the struct ref points to. Objects
// are identified by allocation; a nested struct shares its owner's reference (heap maps are keyed per innermost
// struct type and field, so there is no clash) unless the owner nests the same struct type twice.
func (vc *VC) interiorRef(structT types.Type, idx int, ref string) string {
	if !nestsTypeTwice(structT) {
		return ref
	}
	return "(" + vc.fieldAddrFn(structT, idx) + " " + ref + ")"
}

func nestsTypeTwice(t types.Type) bool {
	seen := map[string]int{}
	var walk func(t types.Type)
	walk = func(t types.Type) {
		st, ok := t.Underlying().(*types.Struct)
		if !ok {
			return
		}
		for i := 0; i < st.NumFields(); i++ {
			ft := st.Field(i).Type()
			if _, nested := ft.Underlying().(*types.Struct); nested {
				seen[types.TypeString(ft, nil)]++
				walk(ft)
			}
		}
	}
	seen[types.TypeString(t, nil)]++
	walk(t)
	for _, n := range seen {
		if n > 1 {
			return true
		}
	}
	return false
}

func (vc *VC) fieldAddrFn(structT types.Type, idx int) string {
	st := structT.Underlying().(*types.Struct)
	name := "fa_" + typeKey(structT) + "__" + sanitize(st.Field(idx).Name())
	if !vc.declared[name] {
		vc.declFun(name, []string{"Int"}, "Int")
		// injective, maps non-nil to non-nil, preserves allocation order bound loosely: result > 0 for arg > 0
		vc.decls = append(vc.decls, fmt.Sprintf("(declare-fun %s_inv (Int) Int)", name))
		vc.decls = append(vc.decls, fmt.Sprintf("(assert (forall ((r Int)) (! (and (= (%s_inv (%s r)) r) (=> (> r 0) (> (%s r) 0))) :pattern ((%s r)))))", name, name, name, name))
	}
	return name
}

// ---------------------------------------------------------------------------
// Loading and storing through locations

func (vc *VC) applyPathGet(root string, rootTyp types.Type, path []pathElem) string {
	t := root
	for _, pe := range path {
		if pe.isIdx {
			t = "(select " + t + " " + pe.idx + ")"
		} else {
			u := pe.typ.Underlying().(*types.Struct)
			name := vc.sorts.structSort(pe.typ, u)
			t = "(" + vc.sorts.structs[name].fields[pe.field] + " " + t + ")"
		}
	}
	return t
}

func (vc *VC) applyPathSet(root string, path []pathElem, val string) string {
	if len(path) == 0 {
		return val
	}
	pe := path[0]
	if pe.isIdx {
		inner := vc.applyPathSet("(select "+root+" "+pe.idx+")", path[1:], val)
		return "(store " + root + " " + pe.idx + " " + inner + ")"
	}
	u := pe.typ.Underlying().(*types.Struct)
	name := vc.sorts.structSort(pe.typ, u)
	si := vc.sorts.structs[name]
	args := make([]string, len(si.fields))
	for i, f := range si.fields {
		if i == pe.field {
			args[i] = vc.applyPathSet("("+f+" "+root+")", path[1:], val)
		} else {
			args[i] = "(" + f + " " + root + ")"
		}
	}
	return sApp("mk_"+name, args...)
}

func (vc *VC) rootGet(st *State, l *Loc) string {
	switch l.kind {
	case locLocal:
		if t, ok := st.locals[l.alloc]; ok {
			return t
		}
		// not yet allocated on this path: zero
		return vc.sorts.zero(l.rootTyp)
	case locField, locDeref:
		hi := vc.heaps[l.heap]
		return "(select " + vc.heapGet(st, hi) + " " + l.ref + ")"
	case locElem:
		hi := vc.heaps[l.heap]
		return "(select (select " + vc.heapGet(st, hi) + " " + l.ref + ") " + l.idx + ")"
	case locGlobal:
		return vc.heapGet(st, vc.heaps[l.heap])
	}
	panic("bad loc")
}

func (vc *VC) rootSet(st *State, l *Loc, val string) {
	switch l.kind {
	case locLocal:
		st.locals[l.alloc] = vc.define("l_"+l.alloc.Comment, vc.sorts.sortOf(l.rootTyp), val)
	case locField, locDeref:
		hi := vc.heaps[l.heap]
		vc.heapSet(st, hi, "(store "+vc.heapGet(st, hi)+" "+l.ref+" "+val+")")
	case locElem:
		hi := vc.heaps[l.heap]
		h := vc.heapGet(st, hi)
		vc.heapSet(st, hi, "(store "+h+" "+l.ref+" (store (select "+h+" "+l.ref+") "+l.idx+" "+val+"))")
	case locGlobal:
		hi := vc.heaps[l.heap]
		vc.heapSet(st, hi, val)
	}
}

func (vc *VC) loadLoc(st *State, l *Loc) Val {
	t := vc.applyPathGet(vc.rootGet(st, l), l.rootTyp, l.path)
	return Val{T: t, S: vc.sorts.sortOf(l.typ), Typ: l.typ}
}

func (vc *VC) storeLoc(st *State, l *Loc, v string) {
	if len(l.path) == 0 {
		vc.rootSet(st, l, v)
		return
	}
	root := vc.rootGet(st, l)
	vc.rootSet(st, l, vc.applyPathSet(root, l.path, v))
}

// type ids for interface values
func (vc *VC) typeID(t types.Type) int {
	k := types.TypeString(t, nil)
	if id, ok := vc.tids[k]; ok {
		return id
	}
	// stable ids: hash of the type string (positive 31-bit), so that ids agree across functions
	h := uint32(2166136261)
	for i := 0; i < len(k); i++ {
		h ^= uint32(k[i])
		h *= 16777619
	}
	id := int(h&0x3fffffff) + 1
	vc.tids[k] = id
	return id
}

// box/unbox of non-integer payloads in interface values
func (vc *VC) boxFn(t types.Type) (string, string) {
	s := vc.sorts.sortOf(t)
	key := sanitize(s)
	box, unbox := "box_"+key, "unbox_"+key
	if !vc.declared[box] {
		vc.declared[box] = true
		// declared after datatypes (decls are emitted after sort declarations)
		vc.decls = append(vc.decls, fmt.Sprintf("(declare-fun %s (%s) Int)", box, s))
		vc.decls = append(vc.decls, fmt.Sprintf("(declare-fun %s (Int) %s)", unbox, s))
		vc.decls = append(vc.decls, fmt.Sprintf("(assert (forall ((x %s)) (! (= (%s (%s x)) x) :pattern ((%s x)))))", s, unbox, box, box))
	}
	return box, unbox
}

func (vc *VC) toIface(v Val, t types.Type) string {
	if _, isIface := t.Underlying().(*types.Interface); isIface {
		return v.T
	}
	tid := vc.typeID(t)
	payload := v.T
	switch v.S {
	case SInt:
	case SBool:
		payload = "(ite " + v.T + " 1 0)"
	default:
		box, _ := vc.boxFn(t)
		payload = "(" + box + " " + v.T + ")"
	}
	return fmt.Sprintf("(mkIface %d %s)", tid, payload)
}

func (vc *VC) fromIface(x string, t types.Type) string {
	s := vc.sorts.sortOf(t)
	switch s {
	case SInt:
		return "(ival " + x + ")"
	case SBool:
		return "(= (ival " + x + ") 1)"
	}
	_, unbox := vc.boxFn(t)
	return "(" + unbox + " (ival " + x + "))"
}

// string literals
func (vc *VC) strLit(s string) string {
	if s == "" {
		return "gs.empty"
	}
	if n, ok := vc.strLits[s]; ok {
		return n
	}
	n := fmt.Sprintf("lit!%d", len(vc.strLits)+1)
	vc.strLits[s] = n
	var b strings.Builder
	fmt.Fprintf(&b, "(declare-const %s Str) ; %q\n", n, truncate(s, 60))
	fmt.Fprintf(&b, "(assert (= (gs.len %s) %d))\n", n, len(s))
	if len(s) <= 48 {
		isbin := true
		val := 0
		for i := 0; i < len(s); i++ {
			fmt.Fprintf(&b, "(assert (= (gs.at %s %d) %d))\n", n, i, s[i])
			if s[i] != '0' && s[i] != '1' {
				isbin = false
			} else {
				val = val*2 + int(s[i]-'0')
			}
		}
		if isbin {
			fmt.Fprintf(&b, "(assert (and (gs.isbin %s) (= (gs.val %s) %d)))\n", n, n, val)
		}
		if len(s) == 1 {
			fmt.Fprintf(&b, "(assert (= %s (gs.ofbyte %d)))\n", n, s[0])
		}
		if strings.ToLower(s) == s {
			fmt.Fprintf(&b, "(assert (= (gs.lower %s) %s))\n", n, n)
		}
	} else {
		// long literals: distinct from every other long literal by an id
		fmt.Fprintf(&b, "(assert (= (gs.litid %s) %d))\n", n, len(vc.strLits))
		if !vc.declared["gs.litid"] {
			vc.declared["gs.litid"] = true
			vc.decls = append([]string{"(declare-fun gs.litid (Str) Int)"}, vc.decls...)
		}
	}
	vc.decls = append(vc.decls, strings.TrimRight(b.String(), "\n"))
	return n
}

// fieldFacts (once per VC): for every short string literal L and every one-character literal separator S of the VC
// the number of fields of L and each field, and that decimal renderings contain no separator.
func (vc *VC) fieldFacts() {
	uses := false
	for _, d := range vc.decls {
		if strings.Contains(d, "gs.nf") || strings.Contains(d, "gs.fld") {
			uses = true
		}
	}
	for _, o := range vc.obls {
		if strings.Contains(o.Script, "gs.nf") || strings.Contains(o.Script, "gs.fld") {
			uses = true
		}
	}
	if !uses {
		return
	}
	{
		var seps []string
		for l := range vc.strLits {
			if len(l) == 1 {
				seps = append(seps, l)
			}
		}
		sort.Strings(seps)
		done := map[string]bool{}
		for {
			var lits []string
			for l := range vc.strLits {
				if !done[l] && len(l) <= 48 {
					lits = append(lits, l)
				}
			}
			if len(lits) == 0 {
				break
			}
			sort.Strings(lits)
			for _, l := range lits {
				done[l] = true
				for _, sp := range seps {
					parts := strings.Split(l, sp)
					ln, sn := vc.strLit(l), vc.strLit(sp)
					var b strings.Builder
					fmt.Fprintf(&b, "(assert (= (gs.nf %s %s) %d))", ln, sn, len(parts))
					for k, pc := range parts {
						fmt.Fprintf(&b, "\n(assert (= (gs.fld %s %s %d) %s))", ln, sn, k, vc.strLit(pc))
					}
					vc.decls = append(vc.decls, b.String())
				}
			}
		}
		for _, sp := range seps {
			if (sp[0] >= '0' && sp[0] <= '9') || sp[0] == '-' {
				continue
			}
			sn := vc.strLit(sp)
			vc.decls = append(vc.decls, fmt.Sprintf("(assert (= (gs.nf gs.empty %s) 1))\n(assert (forall ((i Int)) (! (= (gs.nf (gs.itoa i) %s) 1) :pattern ((gs.nf (gs.itoa i) %s)))))", sn, sn, sn))
		}
	}
}

func truncate(s string, n int) string {
	s = strings.ReplaceAll(s, "\n", "\\n")
	if len(s) > n {
		return s[:n] + "..."
	}
	return s
}

// constArray: an array whose every cell holds the zero value of the element sort. cvc5 only accepts value
// literals in (as const ...), so zero values mentioning uninterpreted constants get a quantified definition.
func (vc *VC) constArray(elemSort, zero string) string {
	if !strings.Contains(zero, "gs.empty") && !strings.Contains(zero, "flt.zero") {
		return "((as const (Array Int " + elemSort + ")) " + zero + ")"
	}
	name := "zarr_" + sanitize(elemSort)
	if !vc.declared[name] {
		vc.declared[name] = true
		vc.decls = append(vc.decls, fmt.Sprintf("(declare-const %s (Array Int %s))", name, elemSort))
		vc.decls = append(vc.decls, fmt.Sprintf("(assert (forall ((i! Int)) (! (= (select %s i!) %s) :pattern ((select %s i!)))))", name, zero, name))
	}
	return name
}
