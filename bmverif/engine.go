package main

// Engine: loads /repo packages (with -tags verif), builds naive-form SSA, reads contract files.

import (
	"fmt"
	"go/ast"
	"go/token"
	"go/types"
	"os"
	"path/filepath"
	"sort"
	"strings"
	"sync"

	"golang.org/x/tools/go/packages"
	"golang.org/x/tools/go/ssa"
	"golang.org/x/tools/go/ssa/ssautil"
)

const repoModule = "github.com/BondMachineHQ/BondMachine"

type Engine struct {
	repo      string
	prog      *ssa.Program
	fset      *token.FileSet
	pkgs      map[string]*packages.Package // by package name (last path element)
	spkgs     map[string]*ssa.Package
	contracts map[string]*FuncContract // "pkg.Key"
	specs     map[string]*SpecFunc
	ghosts    map[string]*GhostField // "Struct.field"
	lemmas    []*Lemma
	scan      []string // trusted-base scan lines
	specFiles []string

	mu          sync.Mutex
	readsMu     sync.Mutex
	assumptions map[string]bool

	// opcode implementers etc.
	namedTypes map[string]types.Type
	readsMemo  map[*ssa.Function]*readSet
	implMemo   map[string][]types.Type
	heapReg    map[string]*heapInfo
	excluded   map[string]string // function key -> reason it is excluded from interface-level sweeps
}

func (e *Engine) noteAssumption(s string) {
	e.mu.Lock()
	defer e.mu.Unlock()
	e.assumptions[s] = true
}

func loadEngine(repo string, pkgPatterns []string, extraSpecDirs []string) (*Engine, error) {
	cfg := &packages.Config{
		Mode:       packages.LoadAllSyntax,
		Dir:        repo,
		BuildFlags: []string{"-tags=verif"},
		Env:        append(os.Environ(), "GOFLAGS=-mod=mod", "GOPROXY=off", "GOSUMDB=off", "GOTOOLCHAIN=local"),
	}
	pkgs, err := packages.Load(cfg, pkgPatterns...)
	if err != nil {
		return nil, err
	}
	nerr := 0
	packages.Visit(pkgs, nil, func(p *packages.Package) {
		if strings.HasPrefix(p.PkgPath, repoModule) {
			for _, e := range p.Errors {
				fmt.Fprintln(os.Stderr, "load error:", e)
				nerr++
			}
		}
	})
	if nerr > 0 {
		return nil, fmt.Errorf("%d load errors in repository packages", nerr)
	}
	prog, _ := ssautil.AllPackages(pkgs, ssa.NaiveForm|ssa.GlobalDebug)
	e := &Engine{repo: repo, prog: prog, pkgs: map[string]*packages.Package{}, spkgs: map[string]*ssa.Package{},
		contracts: map[string]*FuncContract{}, specs: map[string]*SpecFunc{}, ghosts: map[string]*GhostField{},
		assumptions: map[string]bool{}, namedTypes: map[string]types.Type{}, excluded: map[string]string{}}
	packages.Visit(pkgs, nil, func(p *packages.Package) {
		if strings.HasPrefix(p.PkgPath, repoModule) {
			e.pkgs[p.Name] = p
			sp := prog.Package(p.Types)
			if sp != nil {
				e.spkgs[p.Name] = sp
				sp.Build()
			}
			e.fset = p.Fset
		}
	})
	// contract files: <repo>/pkg/<pkg>/verif_contracts*.go, plus extra spec dirs (stdlib contracts)
	for name, p := range e.pkgs {
		if len(p.GoFiles) == 0 {
			continue
		}
		dir := filepath.Dir(p.GoFiles[0])
		matches, _ := filepath.Glob(filepath.Join(dir, "verif_contracts*.go"))
		sort.Strings(matches)
		for _, m := range matches {
			if err := e.addSpecFile(m, name); err != nil {
				return nil, err
			}
		}
	}
	for _, d := range extraSpecDirs {
		matches, _ := filepath.Glob(filepath.Join(d, "*.spec"))
		sort.Strings(matches)
		for _, m := range matches {
			if err := e.addSpecFile(m, ""); err != nil {
				return nil, err
			}
		}
	}
	return e, nil
}

func (e *Engine) addSpecFile(path, pkgName string) error {
	sf, err := parseSpecFile(path, pkgName)
	if err != nil {
		return err
	}
	e.specFiles = append(e.specFiles, path)
	for _, fc := range sf.Funcs {
		key := fc.Key
		if !fc.Extern && pkgName != "" && !strings.HasPrefix(key, "iface:") {
			key = pkgName + "." + key
		}
		if strings.HasPrefix(key, "iface:") && pkgName != "" {
			key = "iface:" + pkgName + "." + key[6:]
		}
		if strings.HasPrefix(key, pkgName+".functype:") {
			key = "functype:" + pkgName + "." + strings.TrimPrefix(key, pkgName+".functype:")
		}
		if _, dup := e.contracts[key]; dup {
			return fmt.Errorf("%s:%d: duplicate contract for %s", path, fc.Line, key)
		}
		e.contracts[key] = fc
	}
	for _, s := range sf.Specs {
		if _, dup := e.specs[s.Name]; dup {
			return fmt.Errorf("%s:%d: duplicate spec function %s", path, s.Line, s.Name)
		}
		e.specs[s.Name] = s
	}
	for _, g := range sf.Ghosts {
		e.ghosts[g.Struct+"."+g.Name] = g
	}
	for k, v := range sf.Excluded {
		key := k
		if pkgName != "" {
			key = pkgName + "." + k
		}
		e.excluded[key] = v
	}
	e.lemmas = append(e.lemmas, sf.Lemmas...)
	e.scan = append(e.scan, sf.RawText...)
	return nil
}

// funcKey gives the contract key of an SSA function.
func funcKey(fn *ssa.Function) string {
	if fn == nil {
		return ""
	}
	if o := fn.Origin(); o != nil {
		fn = o // an instantiation of a generic function is named after the generic function
	}
	if fn.Parent() != nil {
		// anonymous function: parent key + ordinal
		for i, a := range fn.Parent().AnonFuncs {
			if a == fn {
				return fmt.Sprintf("%s$%d", funcKey(fn.Parent()), i+1)
			}
		}
	}
	pkgName := ""
	if fn.Pkg != nil {
		pkgName = fn.Pkg.Pkg.Name()
	} else if fn.Object() != nil && fn.Object().Pkg() != nil {
		pkgName = fn.Object().Pkg().Name()
	}
	name := fn.Name()
	if fn.Signature.Recv() != nil {
		rt := fn.Signature.Recv().Type()
		if p, ok := rt.(*types.Pointer); ok {
			rt = p.Elem()
		}
		if n, ok := types.Unalias(rt).(*types.Named); ok {
			if n.Obj().Pkg() != nil {
				pkgName = n.Obj().Pkg().Name()
			}
			return pkgName + "." + n.Obj().Name() + "." + name
		}
	}
	if fn.Pkg == nil && fn.Object() != nil && fn.Object().Pkg() != nil {
		// extern: use full path
		return fn.Object().Pkg().Path() + "." + name
	}
	if fn.Pkg != nil && !strings.HasPrefix(fn.Pkg.Pkg.Path(), repoModule) {
		return fn.Pkg.Pkg.Path() + "." + name
	}
	return pkgName + "." + name
}

func (e *Engine) contractOf(fn *ssa.Function) *FuncContract {
	return e.contracts[funcKey(fn)]
}

// lookupFunc finds an SSA function by "pkg.Type.Method" or "pkg.Func".
func (e *Engine) lookupFunc(key string) *ssa.Function {
	parts := strings.Split(key, ".")
	sp := e.spkgs[parts[0]]
	if sp == nil {
		return nil
	}
	if len(parts) == 2 {
		return sp.Func(parts[1])
	}
	if len(parts) == 3 {
		t := sp.Type(parts[1])
		if t == nil {
			return nil
		}
		for _, ty := range []types.Type{t.Type(), types.NewPointer(t.Type())} {
			ms := e.prog.MethodSets.MethodSet(ty)
			if sel := ms.Lookup(sp.Pkg, parts[2]); sel != nil {
				fn := e.prog.MethodValue(sel)
				// skip synthetic wrappers: want the declared method
				if fn != nil && fn.Synthetic == "" {
					return fn
				}
				if fn != nil && fn.Synthetic != "" {
					// pointer-receiver wrapper of a value method: find the declared one
					if obj, ok := sel.Obj().(*types.Func); ok {
						if f2 := e.prog.FuncValue(obj); f2 != nil {
							return f2
						}
					}
				}
			}
		}
	}
	return nil
}

// resolveType parses a spec type string in the context of package pkgName.
func (e *Engine) resolveType(s string, pkgName string) (types.Type, error) {
	s = strings.TrimSpace(s)
	switch {
	case strings.HasPrefix(s, "*"):
		t, err := e.resolveType(s[1:], pkgName)
		if err != nil {
			return nil, err
		}
		return types.NewPointer(t), nil
	case strings.HasPrefix(s, "[]"):
		t, err := e.resolveType(s[2:], pkgName)
		if err != nil {
			return nil, err
		}
		return types.NewSlice(t), nil
	case strings.HasPrefix(s, "map["):
		depth := 0
		for i := 3; i < len(s); i++ {
			if s[i] == '[' {
				depth++
			} else if s[i] == ']' {
				depth--
				if depth == 0 {
					k, err := e.resolveType(s[4:i], pkgName)
					if err != nil {
						return nil, err
					}
					v, err := e.resolveType(s[i+1:], pkgName)
					if err != nil {
						return nil, err
					}
					return types.NewMap(k, v), nil
				}
			}
		}
		return nil, fmt.Errorf("bad map type %q", s)
	}
	if obj := types.Universe.Lookup(s); obj != nil {
		if tn, ok := obj.(*types.TypeName); ok {
			return tn.Type(), nil
		}
	}
	if i := strings.Index(s, "."); i >= 0 {
		p := e.pkgs[s[:i]]
		if p == nil {
			return nil, fmt.Errorf("unknown package in type %q", s)
		}
		if obj := p.Types.Scope().Lookup(s[i+1:]); obj != nil {
			return obj.Type(), nil
		}
		return nil, fmt.Errorf("unknown type %q", s)
	}
	if pkgName != "" {
		if p := e.pkgs[pkgName]; p != nil {
			if obj := p.Types.Scope().Lookup(s); obj != nil {
				if _, ok := obj.(*types.TypeName); ok {
					return obj.Type(), nil
				}
			}
		}
	}
	// search all repo packages (unique name)
	var found types.Type
	for _, p := range e.pkgs {
		if obj := p.Types.Scope().Lookup(s); obj != nil {
			if _, ok := obj.(*types.TypeName); ok {
				if found != nil {
					return nil, fmt.Errorf("ambiguous type %q", s)
				}
				found = obj.Type()
			}
		}
	}
	if found != nil {
		return found, nil
	}
	return nil, fmt.Errorf("unknown type %q", s)
}

// ---------------------------------------------------------------------------
// loops

type loopInfo struct {
	header  *ssa.BasicBlock
	blocks  map[*ssa.BasicBlock]bool
	ordinal int // 1-based, source order
	astNode ast.Node
	// range loops over slices: hidden index alloc and key variable name
	rangeIdx *ssa.Alloc
	keyName  string
	valName  string
}

func dominates(a, b *ssa.BasicBlock) bool { return a.Dominates(b) }

func findLoops(fn *ssa.Function) ([]*loopInfo, error) {
	byHeader := map[*ssa.BasicBlock]*loopInfo{}
	for _, b := range fn.Blocks {
		for _, s := range b.Succs {
			if dominates(s, b) { // back edge b->s
				li := byHeader[s]
				if li == nil {
					li = &loopInfo{header: s, blocks: map[*ssa.BasicBlock]bool{s: true}}
					byHeader[s] = li
				}
				// natural loop: all blocks that reach b without passing s
				stack := []*ssa.BasicBlock{b}
				for len(stack) > 0 {
					x := stack[len(stack)-1]
					stack = stack[:len(stack)-1]
					if li.blocks[x] {
						continue
					}
					li.blocks[x] = true
					stack = append(stack, x.Preds...)
				}
			} else {
				// retreating edge that is not a back edge → irreducible (not produced by go/ssa for structured code)
			}
		}
	}
	var loops []*loopInfo
	for _, li := range byHeader {
		loops = append(loops, li)
	}
	// AST loops
	var astLoops []ast.Node
	if fn.Syntax() != nil {
		var body ast.Node
		switch s := fn.Syntax().(type) {
		case *ast.FuncDecl:
			body = s.Body
		case *ast.FuncLit:
			body = s.Body
		}
		if body != nil {
			ast.Inspect(body, func(n ast.Node) bool {
				switch n.(type) {
				case *ast.FuncLit:
					return false
				case *ast.ForStmt, *ast.RangeStmt:
					astLoops = append(astLoops, n)
				}
				return true
			})
		}
	}
	// match each SSA loop to the smallest AST loop containing all its instruction positions
	for _, li := range loops {
		var minPos, maxPos token.Pos
		for b := range li.blocks {
			for _, ins := range b.Instrs {
				if _, isDbg := ins.(*ssa.DebugRef); isDbg {
					continue
				}
				p := ins.Pos()
				if p == token.NoPos {
					continue
				}
				if minPos == token.NoPos || p < minPos {
					minPos = p
				}
				if p > maxPos {
					maxPos = p
				}
			}
		}
		var best ast.Node
		for _, al := range astLoops {
			if minPos == token.NoPos {
				break
			}
			if al.Pos() <= minPos && maxPos <= al.End() {
				if best == nil || (al.End()-al.Pos()) < (best.End()-best.Pos()) {
					best = al
				}
			}
		}
		li.astNode = best
	}
	// ordinals by AST order; check bijection
	used := map[ast.Node]*loopInfo{}
	for _, li := range loops {
		if li.astNode == nil {
			return nil, fmt.Errorf("loop at block %d has no source statement", li.header.Index)
		}
		if used[li.astNode] != nil {
			return nil, fmt.Errorf("two SSA loops map to one source loop")
		}
		used[li.astNode] = li
	}
	for i, al := range astLoops {
		if li := used[al]; li != nil {
			li.ordinal = i + 1
		}
	}
	sort.Slice(loops, func(i, j int) bool { return loops[i].ordinal < loops[j].ordinal })
	for _, li := range loops {
		if rs, ok := li.astNode.(*ast.RangeStmt); ok {
			if id, ok := rs.Key.(*ast.Ident); ok && id.Name != "_" {
				li.keyName = id.Name
			}
			if rs.Value != nil {
				if id, ok := rs.Value.(*ast.Ident); ok && id.Name != "_" {
					li.valName = id.Name
				}
			}
			if li.header.Comment == "rangeindex.loop" {
				for _, ins := range li.header.Instrs {
					if st, ok := ins.(*ssa.Store); ok {
						if a, ok := st.Addr.(*ssa.Alloc); ok && a.Comment == "rangeindex" {
							li.rangeIdx = a
						}
					}
				}
			}
		}
	}
	return loops, nil
}

// ifaceTargets: the methods of all implementing types an interface-level contract applies to.
func (e *Engine) ifaceTargets(key string) []*ssa.Function {
	// key: iface:pkg.Iface.Method
	rest := strings.TrimPrefix(key, "iface:")
	parts := strings.Split(rest, ".")
	if len(parts) != 3 {
		return nil
	}
	p := e.pkgs[parts[0]]
	if p == nil {
		return nil
	}
	obj := p.Types.Scope().Lookup(parts[1])
	if obj == nil {
		return nil
	}
	it := obj.Type()
	iface, ok := it.Underlying().(*types.Interface)
	if !ok {
		return nil
	}
	var m *types.Func
	for i := 0; i < iface.NumMethods(); i++ {
		if iface.Method(i).Name() == parts[2] {
			m = iface.Method(i)
		}
	}
	if m == nil {
		return nil
	}
	var out []*ssa.Function
	for _, t := range e.implementers(it) {
		if fn := e.methodOf(t, m); fn != nil {
			out = append(out, fn)
		}
	}
	sort.Slice(out, func(i, j int) bool { return funcKey(out[i]) < funcKey(out[j]) })
	return out
}

// anonFuncsMatching: all anonymous functions of package pkgName whose signature is identical to sig.
func (e *Engine) anonFuncsMatching(pkgName string, sig *types.Signature) []*ssa.Function {
	sp := e.spkgs[pkgName]
	if sp == nil {
		return nil
	}
	var out []*ssa.Function
	var walk func(fn *ssa.Function)
	walk = func(fn *ssa.Function) {
		for _, a := range fn.AnonFuncs {
			if types.Identical(a.Signature, sig) {
				out = append(out, a)
			}
			walk(a)
		}
	}
	seen := map[*ssa.Function]bool{}
	for _, m := range sp.Members {
		switch x := m.(type) {
		case *ssa.Function:
			if !seen[x] {
				seen[x] = true
				walk(x)
			}
		case *ssa.Type:
			for _, t := range []types.Type{x.Type(), types.NewPointer(x.Type())} {
				ms := e.prog.MethodSets.MethodSet(t)
				for i := 0; i < ms.Len(); i++ {
					if fn := e.prog.MethodValue(ms.At(i)); fn != nil && fn.Synthetic == "" && !seen[fn] {
						seen[fn] = true
						walk(fn)
					}
				}
			}
		}
	}
	sort.Slice(out, func(i, j int) bool { return funcKey(out[i]) < funcKey(out[j]) })
	return out
}

// functypeTargets: key functype:pkg.Name
func (e *Engine) functypeTargets(key string) []*ssa.Function {
	rest := strings.TrimPrefix(key, "functype:")
	parts := strings.Split(rest, ".")
	if len(parts) != 2 {
		return nil
	}
	p := e.pkgs[parts[0]]
	if p == nil {
		return nil
	}
	obj := p.Types.Scope().Lookup(parts[1])
	if obj == nil {
		return nil
	}
	sig, ok := obj.Type().Underlying().(*types.Signature)
	if !ok {
		return nil
	}
	return e.anonFuncsMatching(parts[0], sig)
}
