package main

// SMT term construction helpers, sorts for Go types, prelude.

import (
	"fmt"
	"go/types"
	"sort"
	"strings"
)

// Sort kinds of the encoding (DESIGN §2.4).
const (
	SInt   = "Int"
	SBool  = "Bool"
	SStr   = "Str"
	SFlt   = "Flt"
	SSlice = "Slice"
	SIface = "Iface"
)

// Val is a translated value: an SMT term with its SMT sort and (when known) its Go type.
type Val struct {
	T   string     // SMT term
	S   string     // SMT sort
	Typ types.Type // Go type, may be nil for spec-only values
}

func sApp(f string, args ...string) string {
	if len(args) == 0 {
		return f
	}
	return "(" + f + " " + strings.Join(args, " ") + ")"
}
func sAnd(args ...string) string {
	var out []string
	for _, a := range args {
		if a == "true" || a == "" {
			continue
		}
		if a == "false" {
			return "false"
		}
		out = append(out, a)
	}
	if len(out) == 0 {
		return "true"
	}
	if len(out) == 1 {
		return out[0]
	}
	return "(and " + strings.Join(out, " ") + ")"
}
func sOr(args ...string) string {
	var out []string
	for _, a := range args {
		if a == "false" || a == "" {
			continue
		}
		if a == "true" {
			return "true"
		}
		out = append(out, a)
	}
	if len(out) == 0 {
		return "false"
	}
	if len(out) == 1 {
		return out[0]
	}
	return "(or " + strings.Join(out, " ") + ")"
}
func sNot(a string) string {
	if a == "true" {
		return "false"
	}
	if a == "false" {
		return "true"
	}
	if strings.HasPrefix(a, "(not ") && balanced(a[5:len(a)-1]) {
		return a[5 : len(a)-1]
	}
	return "(not " + a + ")"
}
func balanced(s string) bool {
	d := 0
	for _, c := range s {
		if c == '(' {
			d++
		} else if c == ')' {
			d--
			if d < 0 {
				return false
			}
		}
	}
	return d == 0
}
func sImp(a, b string) string {
	if a == "true" {
		return b
	}
	if a == "false" || b == "true" {
		return "true"
	}
	return "(=> " + a + " " + b + ")"
}
func sEq(a, b string) string {
	if a == b {
		return "true"
	}
	return "(= " + a + " " + b + ")"
}
func sIte(c, a, b string) string {
	if c == "true" {
		return a
	}
	if c == "false" {
		return b
	}
	if a == b {
		return a
	}
	return "(ite " + c + " " + a + " " + b + ")"
}
func sInt(i int64) string {
	if i < 0 {
		return fmt.Sprintf("(- %d)", -i)
	}
	return fmt.Sprintf("%d", i)
}
func sBig(s string) string { // decimal string possibly negative
	if strings.HasPrefix(s, "-") {
		return "(- " + s[1:] + ")"
	}
	return s
}

func sanitize(s string) string {
	var b strings.Builder
	for _, c := range s {
		switch {
		case c >= 'a' && c <= 'z', c >= 'A' && c <= 'Z', c >= '0' && c <= '9', c == '_':
			b.WriteRune(c)
		case c == '.' || c == '/':
			b.WriteByte('_')
		case c == '*':
			b.WriteString("P")
		case c == '[':
			b.WriteString("L")
		case c == ']':
			b.WriteString("J")
		default:
			b.WriteString("_")
		}
	}
	return b.String()
}

// ---------------------------------------------------------------------------
// Integer type info

type intInfo struct {
	bits   int
	signed bool
}

func intInfoOf(t types.Type) (intInfo, bool) {
	b, ok := t.Underlying().(*types.Basic)
	if !ok {
		return intInfo{}, false
	}
	switch b.Kind() {
	case types.Int, types.Int64:
		return intInfo{64, true}, true
	case types.Int8:
		return intInfo{8, true}, true
	case types.Int16:
		return intInfo{16, true}, true
	case types.Int32:
		return intInfo{32, true}, true
	case types.Uint, types.Uint64, types.Uintptr:
		return intInfo{64, false}, true
	case types.Uint8:
		return intInfo{8, false}, true
	case types.Uint16:
		return intInfo{16, false}, true
	case types.Uint32:
		return intInfo{32, false}, true
	case types.UntypedInt, types.UntypedRune:
		return intInfo{0, true}, true // mathematical
	}
	return intInfo{}, false
}

var pow2str = func() []string {
	out := make([]string, 130)
	// compute powers of two as decimal strings
	cur := []int{1}
	for i := 0; i < 130; i++ {
		var sb strings.Builder
		for j := len(cur) - 1; j >= 0; j-- {
			sb.WriteByte(byte('0' + cur[j]))
		}
		out[i] = sb.String()
		carry := 0
		for j := 0; j < len(cur); j++ {
			v := cur[j]*2 + carry
			cur[j] = v % 10
			carry = v / 10
		}
		if carry > 0 {
			cur = append(cur, carry)
		}
	}
	return out
}()

func decSub1(s string) string { // s-1 for positive decimal string
	b := []byte(s)
	i := len(b) - 1
	for i >= 0 && b[i] == '0' {
		b[i] = '9'
		i--
	}
	b[i]--
	r := strings.TrimLeft(string(b), "0")
	if r == "" {
		r = "0"
	}
	return r
}

func (ii intInfo) minStr() string {
	if !ii.signed {
		return "0"
	}
	return "(- " + pow2str[ii.bits-1] + ")"
}
func (ii intInfo) maxStr() string {
	if ii.signed {
		return decSub1(pow2str[ii.bits-1])
	}
	return decSub1(pow2str[ii.bits])
}
func (ii intInfo) wrapFn() string {
	if ii.bits == 0 {
		return ""
	}
	if ii.signed {
		return fmt.Sprintf("wrapS%d", ii.bits)
	}
	return fmt.Sprintf("wrapU%d", ii.bits)
}
func (ii intInfo) inRange(t string) string {
	if ii.bits == 0 {
		return "true"
	}
	return "(and (<= " + ii.minStr() + " " + t + ") (<= " + t + " " + ii.maxStr() + "))"
}

// wrap1 is for results at most one modulus away from range (add/sub): cheap ite form.
func (ii intInfo) wrapAddSub(t string) string {
	if ii.bits == 0 {
		return t
	}
	if ii.signed {
		return fmt.Sprintf("(wrap1S%d %s)", ii.bits, t)
	}
	return fmt.Sprintf("(wrap1U%d %s)", ii.bits, t)
}
func (ii intInfo) wrapFull(t string) string {
	if ii.bits == 0 {
		return t
	}
	return "(" + ii.wrapFn() + " " + t + ")"
}

// ---------------------------------------------------------------------------
// Prelude

func preludeBase() string {
	var b strings.Builder
	b.WriteString("(declare-datatypes ((Slice 0)) (((mkSlice (sarr Int) (soff Int) (slen Int) (scap Int)))))\n")
	b.WriteString("(declare-datatypes ((Iface 0)) (((mkIface (itid Int) (ival Int)))))\n")
	b.WriteString("(declare-sort Str 0)\n(declare-sort Flt 0)\n")
	b.WriteString("(define-fun nilSlice () Slice (mkSlice 0 0 0 0))\n")
	b.WriteString("(define-fun nilIface () Iface (mkIface 0 0))\n")
	b.WriteString("(define-fun wfSlice ((s Slice)) Bool (and (<= 0 (soff s)) (<= 0 (slen s)) (<= (slen s) (scap s)) (<= (+ (soff s) (scap s)) 9223372036854775807) (<= 0 (sarr s)) (=> (= (sarr s) 0) (= (scap s) 0))))\n")
	for _, w := range []int{8, 16, 32, 64} {
		m := pow2str[w]
		h := pow2str[w-1]
		fmt.Fprintf(&b, "(define-fun wrapU%d ((x Int)) Int (mod x %s))\n", w, m)
		fmt.Fprintf(&b, "(define-fun wrapS%d ((x Int)) Int (- (mod (+ x %s) %s) %s))\n", w, h, m, h)
		fmt.Fprintf(&b, "(define-fun wrap1U%d ((x Int)) Int (ite (>= x %s) (- x %s) (ite (< x 0) (+ x %s) x)))\n", w, m, m, m)
		fmt.Fprintf(&b, "(define-fun wrap1S%d ((x Int)) Int (ite (>= x %s) (- x %s) (ite (< x (- %s)) (+ x %s) x)))\n", w, h, m, h, m)
	}
	// pow2 table 0..64, 0 beyond (used for shifts with counts >= width through explicit guards)
	b.WriteString("(define-fun pow2 ((n Int)) Int ")
	for i := 0; i <= 64; i++ {
		fmt.Fprintf(&b, "(ite (= n %d) %s ", i, pow2str[i])
	}
	b.WriteString("0")
	b.WriteString(strings.Repeat(")", 65))
	b.WriteString(")\n")
	// bitsfor(n): least b >= 1 with n <= 2^b (the value every Needed_bits-like helper is specified against)
	b.WriteString("(define-fun bitsfor ((n Int)) Int ")
	for i := 1; i <= 63; i++ {
		fmt.Fprintf(&b, "(ite (<= n %s) %d ", pow2str[i], i)
	}
	b.WriteString("64")
	b.WriteString(strings.Repeat(")", 63))
	b.WriteString(")\n")
	return b.String()
}

// String model (T2). Axioms are universally quantified with patterns.
func preludeStrings() string {
	return `(declare-fun gs.len (Str) Int)
(declare-fun gs.cat (Str Str) Str)
(declare-fun gs.sub (Str Int Int) Str)
(declare-fun gs.at (Str Int) Int)
(declare-fun gs.val (Str) Int)
(declare-fun gs.isbin (Str) Bool)
(declare-fun gs.itoa (Int) Str)
(declare-fun gs.atoi (Str) Int)
(declare-fun gs.bin (Int) Str)
(declare-fun gs.lower (Str) Str)
(declare-fun gs.upper (Str) Str)
(declare-fun gs.ofbyte (Int) Str)
(declare-const gs.empty Str)
(assert (= (gs.len gs.empty) 0))
(assert (forall ((s Str)) (! (and (>= (gs.len s) 0) (<= (gs.len s) 9223372036854775807)) :pattern ((gs.len s)))))
(assert (forall ((s Str)) (! (=> (= (gs.len s) 0) (= s gs.empty)) :pattern ((gs.len s)))))
(assert (forall ((a Str) (b Str)) (! (= (gs.len (gs.cat a b)) (+ (gs.len a) (gs.len b))) :pattern ((gs.cat a b)))))
(assert (forall ((a Str)) (! (= (gs.cat a gs.empty) a) :pattern ((gs.cat a gs.empty)))))
(assert (forall ((a Str)) (! (= (gs.cat gs.empty a) a) :pattern ((gs.cat gs.empty a)))))
(assert (forall ((s Str) (i Int) (j Int)) (! (=> (and (<= 0 i) (<= i j) (<= j (gs.len s))) (= (gs.len (gs.sub s i j)) (- j i))) :pattern ((gs.sub s i j)))))
(assert (forall ((s Str)) (! (= (gs.sub s 0 (gs.len s)) s) :pattern ((gs.sub s 0 (gs.len s))))))
(assert (forall ((a Str) (b Str) (i Int) (j Int)) (! (=> (and (<= 0 i) (<= i j) (<= j (gs.len a))) (= (gs.sub (gs.cat a b) i j) (gs.sub a i j))) :pattern ((gs.sub (gs.cat a b) i j)))))
(assert (forall ((a Str) (b Str) (i Int) (j Int)) (! (=> (and (<= (gs.len a) i) (<= i j) (<= j (+ (gs.len a) (gs.len b)))) (= (gs.sub (gs.cat a b) i j) (gs.sub b (- i (gs.len a)) (- j (gs.len a))))) :pattern ((gs.sub (gs.cat a b) i j)))))
(assert (forall ((s Str) (i Int) (j Int) (k Int) (l Int)) (! (=> (and (<= 0 i) (<= i j) (<= j (gs.len s)) (<= 0 k) (<= k l) (<= l (- j i))) (= (gs.sub (gs.sub s i j) k l) (gs.sub s (+ i k) (+ i l)))) :pattern ((gs.sub (gs.sub s i j) k l)))))
(assert (forall ((a Str) (b Str) (i Int)) (! (=> (and (<= 0 i) (< i (gs.len a))) (= (gs.at (gs.cat a b) i) (gs.at a i))) :pattern ((gs.at (gs.cat a b) i)))))
(assert (forall ((a Str) (b Str) (i Int)) (! (=> (and (<= (gs.len a) i) (< i (+ (gs.len a) (gs.len b)))) (= (gs.at (gs.cat a b) i) (gs.at b (- i (gs.len a))))) :pattern ((gs.at (gs.cat a b) i)))))
(assert (forall ((s Str) (l Int) (i Int) (j Int)) (! (=> (and (<= 0 i) (<= i j) (<= j l) (<= l (gs.len s))) (= (gs.sub s i j) (gs.sub (gs.sub s 0 l) i j))) :pattern ((gs.sub s i j) (gs.sub s 0 l)))))
(assert (forall ((s Str) (i Int) (j Int) (k Int)) (! (=> (and (<= 0 i) (<= i j) (<= j (gs.len s)) (<= 0 k) (< k (- j i))) (= (gs.at (gs.sub s i j) k) (gs.at s (+ i k)))) :pattern ((gs.at (gs.sub s i j) k)))))
(assert (forall ((s Str) (i Int)) (! (and (<= 0 (gs.at s i)) (<= (gs.at s i) 255)) :pattern ((gs.at s i)))))
(assert (forall ((s Str)) (! (and (<= 0 (gs.val s)) (< (gs.val s) (pow2big (gs.len s)))) :pattern ((gs.val s)))))
(assert (= (gs.val gs.empty) 0))
(assert (gs.isbin gs.empty))
(assert (forall ((s Str) (a Int) (b Int)) (! (=> (and (<= 0 a) (< a b) (<= b (gs.len s))) (= (gs.val (gs.sub s a b)) (+ (ite (= (gs.at s a) 49) (pow2big (- (- b a) 1)) 0) (gs.val (gs.sub s (+ a 1) b))))) :pattern ((gs.val (gs.sub s a b)) (gs.at s a)))))
(assert (forall ((s Str) (a Int)) (! (=> (and (<= 0 a) (<= a (gs.len s))) (= (gs.sub s a a) gs.empty)) :pattern ((gs.sub s a a)))))
(assert (forall ((s Str)) (! (=> (and (>= (gs.len s) 1) (= (gs.at s 0) 49)) (>= (gs.val s) (pow2big (- (gs.len s) 1)))) :pattern ((gs.val s) (gs.at s 0)))))
(assert (forall ((a Str) (b Str)) (! (=> (= (gs.val a) 0) (= (gs.val (gs.cat a b)) (gs.val b))) :pattern ((gs.val (gs.cat a b))))))
(assert (forall ((a Str) (b Str)) (! (= (gs.isbin (gs.cat a b)) (and (gs.isbin a) (gs.isbin b))) :pattern ((gs.isbin (gs.cat a b))))))
(assert (forall ((s Str) (a Int) (b Int)) (! (=> (and (gs.isbin s) (<= 0 a) (<= a b) (<= b (gs.len s))) (gs.isbin (gs.sub s a b))) :pattern ((gs.isbin (gs.sub s a b))))))
(assert (forall ((i Int)) (! (=> (>= i 0) (and (gs.isbin (gs.bin i)) (= (gs.val (gs.bin i)) i) (>= (gs.len (gs.bin i)) 1) (=> (> i 0) (= (gs.at (gs.bin i) 0) 49)))) :pattern ((gs.bin i)))))
(assert (forall ((i Int) (n Int)) (! (=> (and (>= i 0) (>= n 1)) (= (<= (gs.len (gs.bin i)) n) (< i (pow2big n)))) :pattern ((gs.bin i) (pow2big n)))))
(assert (forall ((i Int)) (! (=> (and (>= i 0) (< i 9223372036854775807)) (= (gs.len (gs.bin i)) (bitsfor (+ i 1)))) :pattern ((gs.bin i)))))
(assert (forall ((i Int)) (! (= (gs.atoi (gs.itoa i)) i) :pattern ((gs.itoa i)))))
(assert (forall ((i Int)) (! (>= (gs.len (gs.itoa i)) 1) :pattern ((gs.itoa i)))))
(assert (forall ((s Str)) (! (= (gs.len (gs.lower s)) (gs.len s)) :pattern ((gs.lower s)))))
(assert (forall ((a Str) (b Str)) (! (= (gs.lower (gs.cat a b)) (gs.cat (gs.lower a) (gs.lower b))) :pattern ((gs.lower (gs.cat a b))))))
(assert (forall ((i Int)) (! (= (gs.lower (gs.itoa i)) (gs.itoa i)) :pattern ((gs.lower (gs.itoa i))))))
(assert (forall ((s Str)) (! (= (gs.lower (gs.lower s)) (gs.lower s)) :pattern ((gs.lower (gs.lower s))))))
(assert (forall ((s Str)) (! (= (gs.len (gs.upper s)) (gs.len s)) :pattern ((gs.upper s)))))
(assert (forall ((c Int)) (! (and (= (gs.len (gs.ofbyte c)) 1) (=> (and (<= 0 c) (<= c 255)) (= (gs.at (gs.ofbyte c) 0) c))) :pattern ((gs.ofbyte c)))))
`
}

// Field model of strings.Split for one-character separators (T2): nfields(s, sep) / field(s, sep, k).
// The laws are the homomorphism of splitting over concatenation; literals get their facts from vc.fieldFacts.
func preludeFields() string {
	return `(declare-fun gs.nf (Str Str) Int)
(declare-fun gs.fld (Str Str Int) Str)
(assert (forall ((s Str) (p Str)) (! (>= (gs.nf s p) 1) :pattern ((gs.nf s p)))))
(assert (forall ((a Str) (b Str) (p Str)) (! (=> (= (gs.len p) 1) (= (gs.nf (gs.cat a b) p) (- (+ (gs.nf a p) (gs.nf b p)) 1))) :pattern ((gs.nf (gs.cat a b) p)))))
(assert (forall ((a Str) (b Str) (p Str) (k Int)) (! (=> (and (= (gs.len p) 1) (<= 0 k) (< k (- (+ (gs.nf a p) (gs.nf b p)) 1)))
  (= (gs.fld (gs.cat a b) p k)
     (ite (< k (- (gs.nf a p) 1)) (gs.fld a p k)
       (ite (= k (- (gs.nf a p) 1)) (gs.cat (gs.fld a p (- (gs.nf a p) 1)) (gs.fld b p 0))
         (gs.fld b p (+ (- k (gs.nf a p)) 1)))))) :pattern ((gs.fld (gs.cat a b) p k)))))
(assert (forall ((s Str) (p Str)) (! (=> (= (gs.nf s p) 1) (= (gs.fld s p 0) s)) :pattern ((gs.fld s p 0)))))
(assert (forall ((s Str) (p Str) (k Int)) (! (=> (and (= (gs.len p) 1) (<= 0 k) (< k (gs.nf s p))) (= (gs.nf (gs.fld s p k) p) 1)) :pattern ((gs.fld s p k)))))
`
}

// pow2big: unbounded 2^n for n>=0 as uninterpreted with axioms (used only in the string value model).
func preludePow2big() string {
	return `(declare-fun pow2big (Int) Int)
(assert (forall ((n Int)) (! (=> (and (<= 0 n) (<= n 64)) (= (pow2big n) (pow2 n))) :pattern ((pow2big n)))))
(assert (forall ((n Int)) (! (=> (<= 0 n) (>= (pow2big n) 1)) :pattern ((pow2big n)))))
(assert (forall ((n Int) (m Int)) (! (=> (and (<= 0 n) (<= n m)) (<= (pow2big n) (pow2big m))) :pattern ((pow2big n) (pow2big m)))))
(assert (forall ((n Int)) (! (=> (<= 0 n) (= (pow2big (+ n 1)) (* 2 (pow2big n)))) :pattern ((pow2big (+ n 1))))))
`
}

// ---------------------------------------------------------------------------
// Sort registry: datatypes for struct types, declared lazily per query context.

type structInfo struct {
	name   string // SMT sort name
	typ    *types.Struct
	named  types.Type
	fields []string // accessor names
	fsorts []string
}

type Sorts struct {
	structs map[string]*structInfo // by sort name
	order   []string
}

func newSorts() *Sorts { return &Sorts{structs: map[string]*structInfo{}} }

func typeKey(t types.Type) string {
	switch tt := t.(type) {
	case *types.Named:
		o := tt.Obj()
		if o.Pkg() != nil {
			return sanitize(o.Pkg().Name() + "." + o.Name())
		}
		return sanitize(o.Name())
	case *types.Alias:
		return typeKey(types.Unalias(tt))
	case *types.Pointer:
		return "P" + typeKey(tt.Elem())
	case *types.Slice:
		return "L" + typeKey(tt.Elem())
	case *types.Basic:
		return sanitize(tt.Name())
	case *types.Struct:
		var parts []string
		for i := 0; i < tt.NumFields(); i++ {
			parts = append(parts, tt.Field(i).Name()+"_"+typeKey(tt.Field(i).Type()))
		}
		return "anon_" + strings.Join(parts, "_")
	case *types.Map:
		return "M" + typeKey(tt.Key()) + "_" + typeKey(tt.Elem())
	case *types.Interface:
		return "iface"
	case *types.Array:
		return fmt.Sprintf("A%d%s", tt.Len(), typeKey(tt.Elem()))
	case *types.Signature:
		return "func"
	case *types.Chan:
		return "chan"
	case *types.Tuple:
		return "tuple"
	}
	return sanitize(t.String())
}

// sortOf returns the SMT sort used for values of Go type t.
func (ss *Sorts) sortOf(t types.Type) string {
	t = types.Unalias(t)
	switch u := t.Underlying().(type) {
	case *types.Basic:
		info := u.Info()
		switch {
		case info&types.IsBoolean != 0:
			return SBool
		case info&types.IsInteger != 0:
			return SInt
		case info&types.IsString != 0:
			return SStr
		case info&(types.IsFloat|types.IsComplex) != 0:
			return SFlt
		case u.Kind() == types.UnsafePointer:
			return SInt
		case u.Kind() == types.UntypedNil:
			return SInt
		}
		return SInt
	case *types.Pointer, *types.Map, *types.Chan, *types.Signature:
		return SInt
	case *types.Slice:
		return SSlice
	case *types.Interface:
		return SIface
	case *types.Struct:
		return ss.structSort(t, u)
	case *types.Array:
		return "(Array Int " + ss.sortOf(u.Elem()) + ")"
	case *types.Tuple:
		return "TUPLE"
	}
	return SInt
}

func (ss *Sorts) structSort(t types.Type, u *types.Struct) string {
	name := "S_" + typeKey(t)
	if _, ok := ss.structs[name]; ok {
		return name
	}
	si := &structInfo{name: name, typ: u, named: t}
	ss.structs[name] = si // placeholder against recursion
	for i := 0; i < u.NumFields(); i++ {
		f := u.Field(i)
		si.fields = append(si.fields, name+"__"+sanitize(f.Name()))
		si.fsorts = append(si.fsorts, ss.sortOf(f.Type()))
	}
	ss.order = append(ss.order, name) // dependencies were appended first (post-order)
	return name
}

func (ss *Sorts) decls() string {
	var b strings.Builder
	for _, n := range ss.order {
		si := ss.structs[n]
		fmt.Fprintf(&b, "(declare-datatypes ((%s 0)) (((mk_%s", n, n)
		for i, f := range si.fields {
			fmt.Fprintf(&b, " (%s %s)", f, si.fsorts[i])
		}
		if len(si.fields) == 0 {
			// nothing
		}
		b.WriteString("))))\n")
	}
	return b.String()
}

// zero value of a Go type as SMT term
func (ss *Sorts) zero(t types.Type) string {
	t = types.Unalias(t)
	switch u := t.Underlying().(type) {
	case *types.Basic:
		switch ss.sortOf(t) {
		case SBool:
			return "false"
		case SStr:
			return "gs.empty"
		case SFlt:
			return "flt.zero"
		}
		return "0"
	case *types.Slice:
		return "(mkSlice 0 0 0 0)"
	case *types.Interface:
		return "(mkIface 0 0)"
	case *types.Struct:
		name := ss.structSort(t, u)
		args := []string{}
		for i := 0; i < u.NumFields(); i++ {
			args = append(args, ss.zero(u.Field(i).Type()))
		}
		return sApp("mk_"+name, args...)
	case *types.Array:
		return "((as const " + ss.sortOf(t) + ") " + ss.zero(u.Elem()) + ")"
	}
	return "0"
}

// typeInv: well-typedness facts of a value of Go type t held in term x, with all references below bound
// (bound == "" → no reference bound).
func (ss *Sorts) typeInv(t types.Type, x string, bound string) string {
	t = types.Unalias(t)
	switch u := t.Underlying().(type) {
	case *types.Basic:
		if ii, ok := intInfoOf(t); ok {
			return ii.inRange(x)
		}
		return "true"
	case *types.Pointer, *types.Map, *types.Chan:
		c := "(<= 0 " + x + ")"
		if bound != "" {
			c = sAnd(c, "(< "+x+" "+bound+")")
		}
		return c
	case *types.Slice:
		c := "(wfSlice " + x + ")"
		if bound != "" {
			c = sAnd(c, "(< (sarr "+x+") "+bound+")")
		}
		return c
	case *types.Interface:
		c := "(=> (= (itid " + x + ") 0) (= (ival " + x + ") 0))"
		return c
	case *types.Struct:
		name := ss.structSort(t, u)
		si := ss.structs[name]
		var cs []string
		for i := 0; i < u.NumFields(); i++ {
			cs = append(cs, ss.typeInv(u.Field(i).Type(), "("+si.fields[i]+" "+x+")", bound))
		}
		return sAnd(cs...)
	}
	return "true"
}

func sortedKeys[V any](m map[string]V) []string {
	ks := make([]string, 0, len(m))
	for k := range m {
		ks = append(ks, k)
	}
	sort.Strings(ks)
	return ks
}
