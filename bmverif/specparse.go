package main

// Contract language: lexer, expression parser, directive parser (DESIGN §2.2).

import (
	"fmt"
	"os"
	"strings"
)

type tok struct {
	k    string // "id", "int", "str", "chr", "op", "eof"
	v    string
	line int
}

func lexLine(s string, line int, file string) ([]tok, error) {
	var out []tok
	i := 0
	for i < len(s) {
		c := s[i]
		switch {
		case c == ' ' || c == '\t':
			i++
		case c == '/' && i+1 < len(s) && s[i+1] == '/':
			i = len(s)
		case c >= '0' && c <= '9':
			j := i
			for j < len(s) && (s[j] >= '0' && s[j] <= '9' || s[j] == 'x' || s[j] >= 'a' && s[j] <= 'f' || s[j] >= 'A' && s[j] <= 'F' || s[j] == '_') {
				j++
			}
			if j+1 < len(s) && s[j] == '.' && s[j+1] >= '0' && s[j+1] <= '9' {
				k := j + 1
				for k < len(s) && s[k] >= '0' && s[k] <= '9' {
					k++
				}
				out = append(out, tok{"flt", s[i:k], line})
				i = k
				break
			}
			out = append(out, tok{"int", s[i:j], line})
			i = j
		case c == '_' || c == '$' || c >= 'a' && c <= 'z' || c >= 'A' && c <= 'Z':
			j := i
			for j < len(s) && (s[j] == '_' || s[j] == '$' || s[j] == '\'' || s[j] >= 'a' && s[j] <= 'z' || s[j] >= 'A' && s[j] <= 'Z' || s[j] >= '0' && s[j] <= '9') {
				j++
			}
			out = append(out, tok{"id", s[i:j], line})
			i = j
		case c == '"':
			j := i + 1
			var sb strings.Builder
			for j < len(s) && s[j] != '"' {
				if s[j] == '\\' && j+1 < len(s) {
					j++
					switch s[j] {
					case 'n':
						sb.WriteByte('\n')
					case 't':
						sb.WriteByte('\t')
					default:
						sb.WriteByte(s[j])
					}
				} else {
					sb.WriteByte(s[j])
				}
				j++
			}
			if j >= len(s) {
				return nil, fmt.Errorf("%s:%d: unterminated string", file, line)
			}
			out = append(out, tok{"str", sb.String(), line})
			i = j + 1
		case c == '\'':
			if i+2 < len(s) && s[i+2] == '\'' {
				out = append(out, tok{"chr", s[i+1 : i+2], line})
				i += 3
			} else {
				return nil, fmt.Errorf("%s:%d: bad char literal", file, line)
			}
		default:
			ops := []string{"<==>", "==>", "::", ":=", "<=", ">=", "==", "!=", "&&", "||", "<<", ">>", "&^", "..."}
			matched := false
			for _, o := range ops {
				if strings.HasPrefix(s[i:], o) {
					out = append(out, tok{"op", o, line})
					i += len(o)
					matched = true
					break
				}
			}
			if !matched {
				out = append(out, tok{"op", string(c), line})
				i++
			}
		}
	}
	return out, nil
}

// ---------------------------------------------------------------------------
// Spec AST

type SExpr interface{}
type SIdent struct{ Name string }
type SIntLit struct{ V string }
type SStrLit struct{ V string }
type SFltLit struct{ V string }
type SChrLit struct{ V byte }
type SBoolLit struct{ V bool }
type SNil struct{}
type SUnary struct {
	Op string
	X  SExpr
}
type SBinary struct {
	Op   string
	X, Y SExpr
}
type SCond struct{ C, A, B SExpr }
type SCall struct {
	Fun  string
	Args []SExpr
}
type SSelect struct {
	X   SExpr
	Sel string
}
type SIndex struct{ X, I SExpr }
type SSliceE struct{ X, Lo, Hi SExpr }
type SVar struct {
	Name string
	Type string
}
type SQuant struct {
	Forall   bool
	Vars     []SVar
	Triggers [][]SExpr
	Body     SExpr
}
type SComposite struct {
	Type  string
	Elems []SExpr
}
type SMethodCall struct {
	Recv SExpr
	Name string
	Args []SExpr
}
type SLet struct {
	Name string
	Val  SExpr
	Body SExpr
}

type parser struct {
	toks []tok
	p    int
	file string
}

func (p *parser) peek() tok {
	if p.p < len(p.toks) {
		return p.toks[p.p]
	}
	return tok{k: "eof"}
}
func (p *parser) peekAt(n int) tok {
	if p.p+n < len(p.toks) {
		return p.toks[p.p+n]
	}
	return tok{k: "eof"}
}
func (p *parser) next() tok { t := p.peek(); p.p++; return t }
func (p *parser) isOp(v string) bool {
	t := p.peek()
	return t.k == "op" && t.v == v
}
func (p *parser) isId(v string) bool {
	t := p.peek()
	return t.k == "id" && t.v == v
}
func (p *parser) errf(f string, a ...interface{}) error {
	line := 0
	if p.p < len(p.toks) {
		line = p.toks[p.p].line
	} else if len(p.toks) > 0 {
		line = p.toks[len(p.toks)-1].line
	}
	return fmt.Errorf("%s:%d: %s (at %q)", p.file, line, fmt.Sprintf(f, a...), p.peek().v)
}
func (p *parser) expectOp(v string) error {
	if !p.isOp(v) {
		return p.errf("expected %q", v)
	}
	p.p++
	return nil
}

func (p *parser) parseExpr() (SExpr, error) { return p.parseIff() }

func (p *parser) parseIff() (SExpr, error) {
	x, err := p.parseImp()
	if err != nil {
		return nil, err
	}
	for p.isOp("<==>") {
		p.p++
		y, err := p.parseImp()
		if err != nil {
			return nil, err
		}
		x = &SBinary{"<==>", x, y}
	}
	return x, nil
}
func (p *parser) parseImp() (SExpr, error) {
	x, err := p.parseCond()
	if err != nil {
		return nil, err
	}
	if p.isOp("==>") {
		p.p++
		y, err := p.parseImp()
		if err != nil {
			return nil, err
		}
		return &SBinary{"==>", x, y}, nil
	}
	return x, nil
}
func (p *parser) parseCond() (SExpr, error) {
	c, err := p.parseBin(0)
	if err != nil {
		return nil, err
	}
	if p.isOp("?") {
		p.p++
		a, err := p.parseCond()
		if err != nil {
			return nil, err
		}
		if err := p.expectOp(":"); err != nil {
			return nil, err
		}
		b, err := p.parseCond()
		if err != nil {
			return nil, err
		}
		return &SCond{c, a, b}, nil
	}
	return c, nil
}

var binPrec = map[string]int{
	"||": 1, "&&": 2,
	"==": 3, "!=": 3, "<": 3, "<=": 3, ">": 3, ">=": 3,
	"+": 4, "-": 4, "|": 4, "^": 4,
	"*": 5, "/": 5, "%": 5, "<<": 5, ">>": 5, "&": 5, "&^": 5,
}

func (p *parser) parseBin(min int) (SExpr, error) {
	x, err := p.parseUnary()
	if err != nil {
		return nil, err
	}
	for {
		t := p.peek()
		if t.k != "op" {
			return x, nil
		}
		pr, ok := binPrec[t.v]
		if !ok || pr <= min {
			return x, nil
		}
		p.p++
		y, err := p.parseBin(pr)
		if err != nil {
			return nil, err
		}
		x = &SBinary{t.v, x, y}
	}
}
func (p *parser) parseUnary() (SExpr, error) {
	if p.isOp("!") || p.isOp("-") {
		op := p.next().v
		x, err := p.parseUnary()
		if err != nil {
			return nil, err
		}
		return &SUnary{op, x}, nil
	}
	return p.parsePostfix()
}

func (p *parser) parseTypeStr() (string, error) {
	// Go-ish type syntax: *T, []T, map[K]V, pkg.T, T
	if p.isOp("*") {
		p.p++
		t, err := p.parseTypeStr()
		return "*" + t, err
	}
	if p.isOp("[") {
		p.p++
		if err := p.expectOp("]"); err != nil {
			return "", err
		}
		t, err := p.parseTypeStr()
		return "[]" + t, err
	}
	t := p.peek()
	if t.k != "id" {
		return "", p.errf("expected type")
	}
	p.p++
	if t.v == "map" {
		if err := p.expectOp("["); err != nil {
			return "", err
		}
		k, err := p.parseTypeStr()
		if err != nil {
			return "", err
		}
		if err := p.expectOp("]"); err != nil {
			return "", err
		}
		v, err := p.parseTypeStr()
		return "map[" + k + "]" + v, err
	}
	name := t.v
	if p.isOp(".") && p.peekAt(1).k == "id" {
		p.p++
		name += "." + p.next().v
	}
	return name, nil
}

func (p *parser) parseVarList(endOp string) ([]SVar, error) {
	var vars []SVar
	for {
		var names []string
		for {
			t := p.peek()
			if t.k != "id" {
				return nil, p.errf("expected variable name")
			}
			p.p++
			names = append(names, t.v)
			if p.isOp(",") { // "i, j int": a name directly followed by a comma shares the type of the group
				p.p++
				continue
			}
			break
		}
		ty, err := p.parseTypeStr()
		if err != nil {
			return nil, err
		}
		for _, n := range names {
			vars = append(vars, SVar{n, ty})
		}
		if p.isOp(",") {
			p.p++
			continue
		}
		break
	}
	return vars, nil
}

func (p *parser) parsePrimary() (SExpr, error) {
	t := p.peek()
	switch t.k {
	case "int":
		p.p++
		return &SIntLit{strings.ReplaceAll(t.v, "_", "")}, nil
	case "flt":
		p.p++
		return &SFltLit{t.v}, nil
	case "str":
		p.p++
		return &SStrLit{t.v}, nil
	case "chr":
		p.p++
		return &SChrLit{t.v[0]}, nil
	case "op":
		if t.v == "(" {
			p.p++
			x, err := p.parseExpr()
			if err != nil {
				return nil, err
			}
			if err := p.expectOp(")"); err != nil {
				return nil, err
			}
			return x, nil
		}
		return nil, p.errf("unexpected token")
	case "id":
		switch t.v {
		case "true":
			p.p++
			return &SBoolLit{true}, nil
		case "false":
			p.p++
			return &SBoolLit{false}, nil
		case "nil":
			p.p++
			return &SNil{}, nil
		case "forall", "exists":
			p.p++
			vars, err := p.parseVarList("::")
			if err != nil {
				return nil, err
			}
			if err := p.expectOp("::"); err != nil {
				return nil, err
			}
			var trigs [][]SExpr
			for p.isOp("{") {
				p.p++
				var tr []SExpr
				for {
					e, err := p.parseExpr()
					if err != nil {
						return nil, err
					}
					tr = append(tr, e)
					if p.isOp(",") {
						p.p++
						continue
					}
					break
				}
				if err := p.expectOp("}"); err != nil {
					return nil, err
				}
				trigs = append(trigs, tr)
			}
			body, err := p.parseExpr()
			if err != nil {
				return nil, err
			}
			return &SQuant{t.v == "forall", vars, trigs, body}, nil
		case "let":
			p.p++
			n := p.next()
			if n.k != "id" {
				return nil, p.errf("let: expected name")
			}
			if err := p.expectOp(":="); err != nil {
				return nil, err
			}
			v, err := p.parseCond()
			if err != nil {
				return nil, err
			}
			if !p.isId("in") {
				return nil, p.errf("let: expected 'in'")
			}
			p.p++
			body, err := p.parseExpr()
			if err != nil {
				return nil, err
			}
			return &SLet{n.v, v, body}, nil
		}
		p.p++
		name := t.v
		// composite literal: Type{...} or pkg.Type{...}
		if p.isOp("{") && len(name) > 0 && name[0] >= 'A' && name[0] <= 'Z' {
			p.p++
			var elems []SExpr
			for !p.isOp("}") {
				e, err := p.parseExpr()
				if err != nil {
					return nil, err
				}
				elems = append(elems, e)
				if p.isOp(",") {
					p.p++
				}
			}
			p.p++
			return &SComposite{name, elems}, nil
		}
		return &SIdent{name}, nil
	}
	return nil, p.errf("unexpected end of expression")
}

func (p *parser) parsePostfix() (SExpr, error) {
	x, err := p.parsePrimary()
	if err != nil {
		return nil, err
	}
	for {
		switch {
		case p.isOp("."):
			if p.peekAt(1).k != "id" {
				return x, nil
			}
			p.p++
			sel := p.next().v
			x = &SSelect{x, sel}
		case p.isOp("["):
			p.p++
			var lo, hi SExpr
			if !p.isOp(":") {
				lo, err = p.parseExpr()
				if err != nil {
					return nil, err
				}
			}
			if p.isOp(":") {
				p.p++
				if !p.isOp("]") {
					hi, err = p.parseExpr()
					if err != nil {
						return nil, err
					}
				}
				if err := p.expectOp("]"); err != nil {
					return nil, err
				}
				x = &SSliceE{x, lo, hi}
			} else {
				if err := p.expectOp("]"); err != nil {
					return nil, err
				}
				x = &SIndex{x, lo}
			}
		case p.isOp("("):
			// call: only on identifiers or pkg.ident
			var fname string
			switch f := x.(type) {
			case *SIdent:
				fname = f.Name
			case *SSelect:
				if id, ok := f.X.(*SIdent); ok {
					fname = id.Name + "." + f.Sel
				} else {
					// method call on an arbitrary receiver expression
					p.p++
					var args []SExpr
					for !p.isOp(")") {
						a, err := p.parseExpr()
						if err != nil {
							return nil, err
						}
						args = append(args, a)
						if p.isOp(",") {
							p.p++
						} else if !p.isOp(")") {
							return nil, p.errf("expected , or )")
						}
					}
					p.p++
					x = &SMethodCall{f.X, f.Sel, args}
					continue
				}
			default:
				return nil, p.errf("call of non-function")
			}
			p.p++
			var args []SExpr
			for !p.isOp(")") {
				a, err := p.parseExpr()
				if err != nil {
					return nil, err
				}
				args = append(args, a)
				if p.isOp(",") {
					p.p++
				} else if !p.isOp(")") {
					return nil, p.errf("expected , or )")
				}
			}
			p.p++
			x = &SCall{fname, args}
		default:
			return x, nil
		}
	}
}

// ---------------------------------------------------------------------------
// Directives

type Clause struct {
	Label string
	E     SExpr
	Line  int
	Text  string
}

type LoopSpec struct {
	Invariants  []Clause
	Decreases   *Clause
	Modifies    []AssignLoc
	HasModifies bool
	EntryOnly   []Clause // checked when the loop is entered; neither assumed nor required to be preserved
}

type AssignLoc struct {
	E    SExpr // location expression; SIndex with I==nil means [*]
	All  bool  // trailing [*]
	Text string
}

// CoverSpec: every (flattened) field of struct type Type must be mentioned as <Prefix>.<field> in some ensures clause,
// except the listed ones. Generates one obligation per field, so that a field added to the struct without extending the
// contract (and hence the copier) fails.
type CoverSpec struct {
	Prefix string
	Type   string
	Except []string
	Line   int
}

type GhostExit struct {
	Target SExpr // e.g. bmach.inpos
	Vars   []SVar
	Val    SExpr
	Line   int
}

type FuncContract struct {
	Key        string // "Type.Method" or "Func" or "pkgpath.Func" for externs or "iface:Opcode.Assembler"
	Pkg        string // package name the contract file belongs to
	Extern     bool
	ParamNames []string // for externs/interface contracts: names taken from the directive
	RecvName   string
	Requires   []Clause
	Ensures    []Clause
	Assigns    []AssignLoc
	HasAssigns bool
	Reads      []AssignLoc
	HasReads   bool
	Pure       bool
	Trusted    bool // contract assumed for the body (not verified) — listed in evidence
	Loops      map[int]*LoopSpec
	GhostExits []GhostExit
	Props      []string // property ids this contract serves
	Line       int
	File       string
	Sig        string
	NoPanic    bool
	FrameOnly  bool
	Uses       []string // names of axioms (unproved lemmas declared with //@ axiom) assumed in this function's VC
	SyncPreserves []AssignLoc // at channel operations everything but these locations may change
	HasSync       bool
	Covers        []CoverSpec
}

type SpecFunc struct {
	Name    string
	Params  []SVar
	RetType string // "" for pred (bool)
	Body    SExpr  // nil → uninterpreted
	Pkg     string
	Line    int
}

type GhostField struct {
	Struct string
	Name   string
	Type   string
	Pkg    string
}

type Lemma struct {
	Name  string
	E     SExpr
	Axiom bool
	Pkg   string
	Props []string
	Line  int
	Text  string
}

type SpecFile struct {
	Pkg     string
	Funcs   []*FuncContract
	Specs   []*SpecFunc
	Ghosts  []*GhostField
	Lemmas  []*Lemma
	RawText []string // lines with axiom/assume/pure/trusted for the scan
	Excluded map[string]string
}

var directiveKw = map[string]bool{
	"func": true, "extern": true, "interface": true, "functype": true, "requires": true, "ensures": true, "assigns": true, "reads": true,
	"loop": true, "pure": true, "trusted": true, "spec": true, "pred": true, "uninterp": true, "ghost": true,
	"lemma": true, "axiom": true, "uses": true, "props": true, "nopanic": true, "exclude": true, "frameonly": true, "sync": true, "covers": true,
}

func parseSpecFile(path string, pkgName string) (*SpecFile, error) {
	data, err := os.ReadFile(path)
	if err != nil {
		return nil, err
	}
	sf := &SpecFile{Pkg: pkgName}
	type dir struct {
		toks []tok
		text string
		line int
	}
	var dirs []dir
	for li, line := range strings.Split(string(data), "\n") {
		tl := strings.TrimSpace(line)
		if !strings.HasPrefix(tl, "//@") {
			continue
		}
		body := tl[3:]
		toks, err := lexLine(body, li+1, path)
		if err != nil {
			return nil, err
		}
		if len(toks) == 0 {
			continue
		}
		if toks[0].k == "id" && directiveKw[toks[0].v] {
			dirs = append(dirs, dir{toks, strings.TrimSpace(body), li + 1})
		} else {
			if len(dirs) == 0 {
				return nil, fmt.Errorf("%s:%d: continuation without directive", path, li+1)
			}
			d := &dirs[len(dirs)-1]
			d.toks = append(d.toks, toks...)
			d.text += " " + strings.TrimSpace(body)
		}
	}
	var cur *FuncContract
	var curProps []string
	for _, d := range dirs {
		p := &parser{toks: d.toks, file: path}
		kw := p.next().v
		switch kw {
		case "exclude":
			// exclude Type.Method: reason...   (not verified in interface-level sweeps; listed in the evidence)
			nm := p.next().v
			for p.isOp(".") {
				p.p++
				nm += "." + p.next().v
			}
			if sf.Excluded == nil {
				sf.Excluded = map[string]string{}
			}
			reason := d.text
			if i := strings.Index(reason, ":"); i >= 0 {
				reason = strings.TrimSpace(reason[i+1:])
			}
			sf.Excluded[nm] = reason
			sf.RawText = append(sf.RawText, fmt.Sprintf("%s:%d exclude %s: %s", path, d.line, nm, reason))
		case "props":
			curProps = nil
			for p.peek().k == "id" {
				curProps = append(curProps, p.next().v)
				if p.isOp(",") {
					p.p++
				}
			}
		case "functype":
			// functype Name(params) results : contract every function value of the named func type satisfies
			fc := &FuncContract{Pkg: pkgName, Loops: map[int]*LoopSpec{}, Line: d.line, File: path, Sig: d.text, Props: append([]string{}, curProps...)}
			nm := p.next()
			fc.Key = "functype:" + nm.v
			names, err := p.parseSigParams()
			if err != nil {
				return nil, err
			}
			fc.ParamNames = names
			sf.Funcs = append(sf.Funcs, fc)
			cur = fc
		case "func", "extern", "interface":
			fc := &FuncContract{Pkg: pkgName, Loops: map[int]*LoopSpec{}, Line: d.line, File: path, Sig: d.text, Props: append([]string{}, curProps...)}
			if kw == "extern" {
				fc.Extern = true
				if !p.isId("func") {
					return nil, p.errf("extern: expected func")
				}
				p.p++
			}
			if kw == "interface" {
				in := p.next()
				if in.k != "id" {
					return nil, p.errf("interface: expected name")
				}
				if !p.isId("method") {
					return nil, p.errf("interface: expected 'method'")
				}
				p.p++
				mn := p.next()
				fc.Key = "iface:" + in.v + "." + mn.v
				fc.RecvName = "op"
				names, err := p.parseSigParams()
				if err != nil {
					return nil, err
				}
				fc.ParamNames = names
			} else {
				recvType := ""
				if p.isOp("(") {
					p.p++
					rn := p.next()
					fc.RecvName = rn.v
					if p.isOp("*") {
						p.p++
					}
					rt := p.next()
					recvType = rt.v
					if p.isOp(".") { // pkg.Type
						p.p++
						recvType = p.next().v
					}
					if err := p.expectOp(")"); err != nil {
						return nil, err
					}
				}
				nm := p.next()
				if nm.k != "id" {
					return nil, p.errf("func: expected name")
				}
				name := nm.v
				for p.isOp(".") || p.isOp("/") { // extern: path/pkg.Name
					sep := p.next().v
					name += sep + p.next().v
				}
				if recvType != "" {
					fc.Key = recvType + "." + name
				} else {
					fc.Key = name
				}
				names, err := p.parseSigParams()
				if err != nil {
					return nil, err
				}
				fc.ParamNames = names
			}
			sf.Funcs = append(sf.Funcs, fc)
			cur = fc
		case "requires", "ensures":
			if cur == nil {
				return nil, p.errf("%s outside func", kw)
			}
			label := ""
			if p.peek().k == "id" && p.peekAt(1).k == "op" && p.peekAt(1).v == ":" {
				label = p.next().v
				p.p++
			}
			e, err := p.parseExpr()
			if err != nil {
				return nil, err
			}
			if p.peek().k != "eof" {
				return nil, p.errf("trailing tokens in %s", kw)
			}
			cl := Clause{label, e, d.line, d.text}
			if kw == "requires" {
				cur.Requires = append(cur.Requires, cl)
			} else {
				cur.Ensures = append(cur.Ensures, cl)
			}
		case "assigns", "reads":
			if cur == nil {
				return nil, p.errf("%s outside func", kw)
			}
			if kw == "assigns" {
				cur.HasAssigns = true
			} else {
				cur.HasReads = true
			}
			if p.isId("nothing") {
				break
			}
			for p.peek().k != "eof" {
				start := p.p
				e, err := p.parseAssignLoc()
				if err != nil {
					return nil, err
				}
				var txt []string
				for _, t := range p.toks[start:p.p] {
					txt = append(txt, t.v)
				}
				e.Text = strings.Join(txt, "")
				if kw == "assigns" {
					cur.Assigns = append(cur.Assigns, e)
				} else {
					cur.Reads = append(cur.Reads, e)
				}
				if p.isOp(",") {
					p.p++
				}
			}
		case "loop":
			if cur == nil {
				return nil, p.errf("loop outside func")
			}
			n := p.next()
			if n.k != "int" {
				return nil, p.errf("loop: expected ordinal")
			}
			var ord int
			fmt.Sscanf(n.v, "%d", &ord)
			if err := p.expectOp(":"); err != nil {
				return nil, err
			}
			what := p.next().v
			ls := cur.Loops[ord]
			if ls == nil {
				ls = &LoopSpec{}
				cur.Loops[ord] = ls
			}
			if what == "modifies" {
				ls.HasModifies = true
				if p.isId("nothing") {
					break
				}
				for p.peek().k != "eof" {
					start := p.p
					e, err := p.parseAssignLoc()
					if err != nil {
						return nil, err
					}
					var txt []string
					for _, t := range p.toks[start:p.p] {
						txt = append(txt, t.v)
					}
					e.Text = strings.Join(txt, "")
					ls.Modifies = append(ls.Modifies, e)
					if p.isOp(",") {
						p.p++
					}
				}
				break
			}
			label := ""
			if p.peek().k == "id" && p.peekAt(1).k == "op" && p.peekAt(1).v == ":" {
				label = p.next().v
				p.p++
			}
			e, err := p.parseExpr()
			if err != nil {
				return nil, err
			}
			if p.peek().k != "eof" {
				return nil, p.errf("trailing tokens in loop clause")
			}
			cl := Clause{label, e, d.line, d.text}
			switch what {
			case "entry":
				ls.EntryOnly = append(ls.EntryOnly, cl)
			case "invariant":
				ls.Invariants = append(ls.Invariants, cl)
			case "decreases":
				ls.Decreases = &cl
			default:
				return nil, p.errf("loop: expected invariant, entry, modifies or decreases")
			}
		case "pure":
			if cur == nil {
				return nil, p.errf("pure outside func")
			}
			cur.Pure = true
			sf.RawText = append(sf.RawText, fmt.Sprintf("%s:%d pure %s", path, d.line, cur.Key))
		case "nopanic":
			cur.NoPanic = true
		case "sync":
			// sync preserves loc, ... : every channel operation is a synchronisation point at which other goroutines may
			// have changed any heap cell except the listed ones (an assumption about the other goroutines, listed in the evidence)
			if cur == nil {
				return nil, p.errf("sync outside func")
			}
			if !p.isId("preserves") {
				return nil, p.errf("sync: expected 'preserves'")
			}
			p.p++
			cur.HasSync = true
			for p.peek().k != "eof" {
				start := p.p
				e, err := p.parseAssignLoc()
				if err != nil {
					return nil, err
				}
				var txt []string
				for _, t := range p.toks[start:p.p] {
					txt = append(txt, t.v)
				}
				e.Text = strings.Join(txt, "")
				cur.SyncPreserves = append(cur.SyncPreserves, e)
				if p.isOp(",") {
					p.p++
				}
			}
			sf.RawText = append(sf.RawText, fmt.Sprintf("%s:%d sync preserves (%s): other goroutines are assumed not to write the listed locations", path, d.line, cur.Key))
		case "covers":
			if cur == nil {
				return nil, p.errf("covers outside func")
			}
			cs := CoverSpec{Line: d.line}
			cs.Prefix = p.next().v
			t, err := p.parseTypeStr()
			if err != nil {
				return nil, err
			}
			cs.Type = t
			if p.isId("except") {
				p.p++
				for p.peek().k == "id" {
					cs.Except = append(cs.Except, p.next().v)
					if p.isOp(",") {
						p.p++
					}
				}
			}
			cur.Covers = append(cur.Covers, cs)
		case "uses":
			// uses a, b: the named axioms are assumed at function entry (each is listed as an assumption)
			if cur == nil {
				return nil, p.errf("uses outside func")
			}
			for p.peek().k != "eof" {
				t := p.next()
				if t.v != "," {
					cur.Uses = append(cur.Uses, t.v)
				}
			}
		case "frameonly":
			// only frame / reads / postcondition obligations are generated; run-time panics and callee
			// preconditions are assumed not to occur (listed as an assumption in the evidence)
			cur.FrameOnly = true
			sf.RawText = append(sf.RawText, fmt.Sprintf("%s:%d frameonly %s (safety and callee preconditions assumed)", path, d.line, cur.Key))
		case "trusted":
			if cur == nil {
				return nil, p.errf("trusted outside func")
			}
			cur.Trusted = true
			sf.RawText = append(sf.RawText, fmt.Sprintf("%s:%d trusted %s", path, d.line, cur.Key))
		case "spec", "pred", "uninterp":
			nm := p.next()
			s := &SpecFunc{Name: nm.v, Pkg: pkgName, Line: d.line}
			if err := p.expectOp("("); err != nil {
				return nil, err
			}
			if !p.isOp(")") {
				vars, err := p.parseVarList(")")
				if err != nil {
					return nil, err
				}
				s.Params = vars
			}
			if err := p.expectOp(")"); err != nil {
				return nil, err
			}
			if kw != "pred" {
				ty, err := p.parseTypeStr()
				if err != nil {
					return nil, err
				}
				s.RetType = ty
			} else {
				s.RetType = "bool"
			}
			if kw != "uninterp" {
				if err := p.expectOp(":="); err != nil {
					return nil, err
				}
				e, err := p.parseExpr()
				if err != nil {
					return nil, err
				}
				if p.peek().k != "eof" {
					return nil, p.errf("trailing tokens in %s %s", kw, s.Name)
				}
				s.Body = e
			}
			sf.Specs = append(sf.Specs, s)
			cur = nil
		case "ghost":
			sub := p.next().v
			switch sub {
			case "field":
				st := p.next().v
				if err := p.expectOp("."); err != nil {
					return nil, err
				}
				fn := p.next().v
				ty, err := p.parseTypeStr()
				if err != nil {
					return nil, err
				}
				sf.Ghosts = append(sf.Ghosts, &GhostField{st, fn, ty, pkgName})
				cur = nil
			case "exit":
				if cur == nil {
					return nil, p.errf("ghost exit outside func")
				}
				// ghost exit x.f[k int] := E     or  x.f[c int][e int] := E
				tgt, err := p.parsePrimary()
				if err != nil {
					return nil, err
				}
				for p.isOp(".") {
					p.p++
					tgt = &SSelect{tgt, p.next().v}
				}
				var vars []SVar
				for p.isOp("[") {
					p.p++
					vs, err := p.parseVarList("]")
					if err != nil {
						return nil, err
					}
					vars = append(vars, vs...)
					if err := p.expectOp("]"); err != nil {
						return nil, err
					}
				}
				if err := p.expectOp(":="); err != nil {
					return nil, err
				}
				e, err := p.parseExpr()
				if err != nil {
					return nil, err
				}
				cur.GhostExits = append(cur.GhostExits, GhostExit{tgt, vars, e, d.line})
			default:
				return nil, p.errf("ghost: expected field or exit")
			}
		case "lemma", "axiom":
			nm := p.next()
			if err := p.expectOp(":"); err != nil {
				return nil, err
			}
			e, err := p.parseExpr()
			if err != nil {
				return nil, err
			}
			if p.peek().k != "eof" {
				return nil, p.errf("trailing tokens in lemma")
			}
			sf.Lemmas = append(sf.Lemmas, &Lemma{nm.v, e, kw == "axiom", pkgName, append([]string{}, curProps...), d.line, d.text})
			if kw == "axiom" {
				sf.RawText = append(sf.RawText, fmt.Sprintf("%s:%d axiom %s", path, d.line, nm.v))
			}
			cur = nil
		}
	}
	return sf, nil
}

// parseSigParams reads "(a T, b, c T) results..." and returns the parameter names; the rest is ignored.
func (p *parser) parseSigParams() ([]string, error) {
	if !p.isOp("(") {
		return nil, nil
	}
	p.p++
	var names []string
	depth := 1
	expectName := true
	for depth > 0 {
		t := p.next()
		if t.k == "eof" {
			return nil, p.errf("unterminated signature")
		}
		if t.k == "op" && (t.v == "(" || t.v == "[") {
			depth++
		} else if t.k == "op" && (t.v == ")" || t.v == "]") {
			depth--
		} else if t.k == "op" && t.v == "," && depth == 1 {
			expectName = true
		} else if t.k == "id" && expectName && depth == 1 {
			names = append(names, t.v)
			expectName = false
		}
	}
	// skip results
	p.p = len(p.toks)
	return names, nil
}

func (p *parser) parseAssignLoc() (AssignLoc, error) {
	// spare(x): the cells of x's backing array beyond its length (written by an in-place append)
	if p.isId("spare") && p.peekAt(1).k == "op" && p.peekAt(1).v == "(" {
		p.p += 2
		inner, err := p.parseAssignLoc()
		if err != nil {
			return AssignLoc{}, err
		}
		if err := p.expectOp(")"); err != nil {
			return AssignLoc{}, err
		}
		return AssignLoc{E: &SCall{Fun: "spare", Args: []SExpr{inner.E}}}, nil
	}
	// postfix expression where index may be '*'
	x, err := p.parsePrimary()
	if err != nil {
		return AssignLoc{}, err
	}
	all := false
	for {
		if p.isOp(".") && p.peekAt(1).k == "op" && p.peekAt(1).v == "*" {
			p.p += 2
			return AssignLoc{E: &SCall{Fun: "allfields", Args: []SExpr{x}}}, nil
		}
		if p.isOp(".") && p.peekAt(1).k == "id" {
			p.p++
			x = &SSelect{x, p.next().v}
		} else if p.isOp("[") {
			p.p++
			if p.isOp("*") {
				p.p++
				if err := p.expectOp("]"); err != nil {
					return AssignLoc{}, err
				}
				x = &SIndex{x, nil}
				all = true
			} else {
				i, err := p.parseExpr()
				if err != nil {
					return AssignLoc{}, err
				}
				if err := p.expectOp("]"); err != nil {
					return AssignLoc{}, err
				}
				x = &SIndex{x, i}
			}
		} else {
			break
		}
	}
	return AssignLoc{E: x, All: all}, nil
}
