package main

// C08 (a): pairwise disjointness of the number-matcher regular languages, decided on the languages themselves.
// The patterns are extracted from the SSA of every importMatchers method (constant keys of the map stores),
// parsed with regexp/syntax (the parser Go's regexp uses) and translated to SMT-LIB RegLan.

import (
	"fmt"
	"regexp/syntax"
	"sort"
	"strings"

	"go/constant"

	"golang.org/x/tools/go/ssa"
)

type matcherInfo struct {
	pattern  string
	importer string
	owner    string
}

func (eng *Engine) extractMatchers(pkgName, method string) []matcherInfo {
	sp := eng.spkgs[pkgName]
	if sp == nil {
		return nil
	}
	var out []matcherInfo
	seen := map[string]bool{}
	for _, m := range sp.Members {
		t, ok := m.(*ssa.Type)
		if !ok {
			continue
		}
		fn := eng.lookupFunc(pkgName + "." + t.Name() + "." + method)
		if fn == nil {
			continue
		}
		for _, b := range fn.Blocks {
			for _, ins := range b.Instrs {
				mu, ok := ins.(*ssa.MapUpdate)
				if !ok {
					continue
				}
				c, ok := mu.Key.(*ssa.Const)
				if !ok || c.Value == nil || c.Value.Kind() != constant.String {
					continue
				}
				pat := constant.StringVal(c.Value)
				imp := "?"
				switch v := mu.Value.(type) {
				case *ssa.Function:
					imp = v.Name()
				case *ssa.ChangeType:
					if f, ok := v.X.(*ssa.Function); ok {
						imp = f.Name()
					}
				case *ssa.MakeClosure:
					if f, ok := v.Fn.(*ssa.Function); ok {
						imp = f.Name()
					}
				}
				if !seen[pat] {
					seen[pat] = true
					out = append(out, matcherInfo{pat, imp, t.Name()})
				}
			}
		}
	}
	sort.Slice(out, func(i, j int) bool { return out[i].pattern < out[j].pattern })
	return out
}

func smtChar(r rune) string {
	if r > 0x2FFFF {
		r = 0x2FFFF
	}
	return fmt.Sprintf("\"\\u{%x}\"", r)
}

func smtStr(s string) string {
	var b strings.Builder
	b.WriteString("\"")
	for _, r := range s {
		fmt.Fprintf(&b, "\\u{%x}", r)
	}
	b.WriteString("\"")
	return b.String()
}

// reToSMT translates a parsed regexp (matching semantics of MatchString: unanchored unless ^/$ are present).
func reToSMT(re *syntax.Regexp) (string, error) {
	switch re.Op {
	case syntax.OpEmptyMatch:
		return "(str.to_re \"\")", nil
	case syntax.OpLiteral:
		if re.Flags&syntax.FoldCase != 0 {
			return "", fmt.Errorf("case-folded literal")
		}
		return "(str.to_re " + smtStr(string(re.Rune)) + ")", nil
	case syntax.OpCharClass:
		var parts []string
		for i := 0; i+1 < len(re.Rune); i += 2 {
			lo, hi := re.Rune[i], re.Rune[i+1]
			if lo > 0x2FFFF {
				continue
			}
			parts = append(parts, "(re.range "+smtChar(lo)+" "+smtChar(hi)+")")
		}
		if len(parts) == 0 {
			return "re.none", nil
		}
		if len(parts) == 1 {
			return parts[0], nil
		}
		return "(re.union " + strings.Join(parts, " ") + ")", nil
	case syntax.OpAnyCharNotNL:
		return "(re.diff re.allchar (str.to_re \"\\u{a}\"))", nil
	case syntax.OpAnyChar:
		return "re.allchar", nil
	case syntax.OpCapture:
		return reToSMT(re.Sub[0])
	case syntax.OpStar, syntax.OpPlus, syntax.OpQuest:
		s, err := reToSMT(re.Sub[0])
		if err != nil {
			return "", err
		}
		op := map[syntax.Op]string{syntax.OpStar: "re.*", syntax.OpPlus: "re.+", syntax.OpQuest: "re.opt"}[re.Op]
		return "(" + op + " " + s + ")", nil
	case syntax.OpRepeat:
		s, err := reToSMT(re.Sub[0])
		if err != nil {
			return "", err
		}
		if re.Max == -1 {
			return fmt.Sprintf("(re.++ ((_ re.^ %d) %s) (re.* %s))", re.Min, s, s), nil
		}
		return fmt.Sprintf("((_ re.loop %d %d) %s)", re.Min, re.Max, s), nil
	case syntax.OpConcat:
		var parts []string
		for _, sub := range re.Sub {
			s, err := reToSMT(sub)
			if err != nil {
				return "", err
			}
			parts = append(parts, s)
		}
		if len(parts) == 1 {
			return parts[0], nil
		}
		return "(re.++ " + strings.Join(parts, " ") + ")", nil
	case syntax.OpAlternate:
		var parts []string
		for _, sub := range re.Sub {
			s, err := reToSMT(sub)
			if err != nil {
				return "", err
			}
			parts = append(parts, s)
		}
		return "(re.union " + strings.Join(parts, " ") + ")", nil
	}
	return "", fmt.Errorf("regexp operator %v not supported", re.Op)
}

// languageOf: the set of strings MatchString accepts for pattern pat, as an SMT RegLan term.
func languageOf(pat string) (string, error) {
	re, err := syntax.Parse(pat, syntax.Perl)
	if err != nil {
		return "", err
	}
	re = re.Simplify()
	// anchors: only leading ^ and trailing $ at the top level are supported
	subs := []*syntax.Regexp{re}
	if re.Op == syntax.OpConcat {
		subs = re.Sub
	}
	begin, end := false, false
	if len(subs) > 0 && (subs[0].Op == syntax.OpBeginText || subs[0].Op == syntax.OpBeginLine) {
		begin = true
		subs = subs[1:]
	}
	if len(subs) > 0 && (subs[len(subs)-1].Op == syntax.OpEndText || subs[len(subs)-1].Op == syntax.OpEndLine) {
		end = true
		subs = subs[:len(subs)-1]
	}
	var parts []string
	if !begin {
		parts = append(parts, "re.all")
	}
	for _, s := range subs {
		if s.Op == syntax.OpBeginText || s.Op == syntax.OpEndText || s.Op == syntax.OpBeginLine || s.Op == syntax.OpEndLine || s.Op == syntax.OpWordBoundary || s.Op == syntax.OpNoWordBoundary {
			return "", fmt.Errorf("inner anchor")
		}
		t, err := reToSMT(s)
		if err != nil {
			return "", err
		}
		parts = append(parts, t)
	}
	if !end {
		parts = append(parts, "re.all")
	}
	if len(parts) == 0 {
		return "(str.to_re \"\")", nil
	}
	if len(parts) == 1 {
		return parts[0], nil
	}
	return "(re.++ " + strings.Join(parts, " ") + ")", nil
}

// regLanObligations: one obligation per unordered pair of matchers: their languages are disjoint.
func (c *checkRun) regLanObligations(pkgName string) {
	ms := c.eng.extractMatchers(pkgName, "importMatchers")
	c.matchers = ms
	if len(ms) < 2 {
		c.outside[pkgName+"#matchers"] = fmt.Sprintf("only %d matcher patterns could be extracted from importMatchers methods", len(ms))
		return
	}
	langs := make([]string, len(ms))
	for i, m := range ms {
		l, err := languageOf(m.pattern)
		if err != nil {
			c.outside[pkgName+"#matcher["+m.pattern+"]"] = "pattern outside the translatable regular-expression subset: " + err.Error()
			continue
		}
		langs[i] = l
	}
	for i := 0; i < len(ms); i++ {
		for j := i + 1; j < len(ms); j++ {
			if langs[i] == "" || langs[j] == "" {
				continue
			}
			script := "(set-option :produce-models true)\n(set-logic QF_S)\n(declare-const w String)\n" +
				"(assert (str.in_re w " + langs[i] + "))\n(assert (str.in_re w " + langs[j] + "))\n(check-sat)\n(get-value (w))\n"
			o := &Obligation{
				Name:   fmt.Sprintf("%s#lemma[matchers_disjoint:%s|%s]", pkgName, ms[i].pattern, ms[j].pattern),
				Kind:   "lemma",
				Func:   pkgName + ".importMatchers",
				Detail: fmt.Sprintf("no string is accepted by both %q (%s) and %q (%s)", ms[i].pattern, ms[i].importer, ms[j].pattern, ms[j].importer),
				Script: script,
			}
			c.obls = append(c.obls, o)
		}
	}
	c.funcs = append(c.funcs, fmt.Sprintf("%s.*.importMatchers (%d patterns extracted from SSA map stores)", pkgName, len(ms)))
}
