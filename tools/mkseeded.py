#!/usr/bin/env python3
"""Builds /verif/seeded/<ID>/<x>/ (patch.diff, demonstration test, notes.md, meta.json) from the staging area.

Inputs (all produced while confirming the seeded changes):
  seeded_staging/<ID>/<x>/{patch.diff,zz_seed_*_test.go,notes.md}   what the sub-agent delivered
  tools/seed_confirm.jsonl    our own confirmation of each change against /repo HEAD (tools/confirm_seed.sh)
  tools/seed_detect.json      outcome of the property's check on the tree with the change applied
"""
import json, os, re, shutil, sys, glob

root = os.path.dirname(os.path.dirname(os.path.abspath(__file__)))
stag = os.path.join(root, "seeded_staging")
out = os.path.join(root, "seeded")
ROUNDS = [("seeded_staging", "seed_confirm.jsonl", {"a": "a", "b": "b", "c": "c"}, 1),
          ("seeded_staging2", "seed_confirm2.jsonl", {"a": "d", "b": "e", "c": "f"}, 2),
          ("seeded_staging3", "seed_confirm3.jsonl", {"a": "g", "b": "h"}, 3)]
confirm = {}
for stg, cf, letters, rnd in ROUNDS:
    path = os.path.join(root, "tools", cf)
    if not os.path.exists(path):
        continue
    for l in open(path):
        l = l.strip()
        if l:
            d = json.loads(l)
            pid, x = d["seed"].split("/")
            d["seed"] = pid + "/" + letters[x]
            confirm[d["seed"]] = d
detect = json.load(open(os.path.join(root, "tools", "seed_detect.json")))


def para(text, pat):
    m = re.search(pat, text, re.I | re.M)
    if not m:
        return ""
    rest = text[m.start():]
    parts = rest.split("\n\n")
    p = parts[0]
    if p.lstrip().startswith("#") and len(parts) > 1 and len(p.splitlines()) == 1:
        p = p + "\n" + parts[1]  # a heading: take the paragraph below it
    return " ".join(x.strip() for x in p.splitlines())


dirs = []
for stg, cf, letters, rnd in ROUNDS:
    for d in sorted(glob.glob(os.path.join(root, stg, "C*", "?"))):
        pid, x = d.split(os.sep)[-2:]
        dirs.append((d, pid, letters[x], rnd))
for d, pid, x, rnd in dirs:
    key = pid + "/" + x
    dst = os.path.join(out, pid, x)
    os.makedirs(dst, exist_ok=True)
    demo = ""
    for f in os.listdir(d):
        if f in ("patch.diff", "notes.md") or f.startswith("zz_seed"):
            shutil.copy(os.path.join(d, f), os.path.join(dst, f))
            if f.startswith("zz_seed"):
                demo = f
    notes = open(os.path.join(d, "notes.md")).read()
    title = notes.splitlines()[0].lstrip("# ").strip()
    c = confirm.get(key, {})
    det = detect.get(key, {})
    meta = {
        "seed": key,
        "round": rnd,
        "property": pid,
        "title": title,
        "clause_broken": para(notes, r"^[#*\s]*(property |which )?clause (of the property )?(that |is )?(broken|breaks)"),
        "needs_to_manifest": para(notes, r"^[#*\s]*(what is )?need(ed|s) (for it )?to manifest|^[#*\s]*what it needs|^[#*\s]*(what is )?needed (in order |for it )?to manifest"),
        "files_touched": sorted(set(re.findall(r"^\+\+\+ b/(\S+)", open(os.path.join(d, "patch.diff")).read(), re.M))),
        "demonstration": {"file": demo, "package": c.get("demo_package"), "test": c.get("demo_test")},
        "confirmed_by_us": {
            "how": "tools/confirm_seed.sh in a scratch git worktree of /repo HEAD under /var/tmp (removed afterwards): "
                   "git apply --check; go test -run <demo> without the change; the same with the change; "
                   "go test of every package the patch touches with the change (demo excluded)",
            "patch_applies_to_head": c.get("patch_applies_to_head"),
            "demo_without_change": c.get("demo_without_change"),
            "demo_with_change": c.get("demo_with_change"),
            "existing_tests_of_touched_packages_with_change": c.get("existing_tests_of_touched_packages"),
        },
        "sub_agent_ran": "see notes.md (commands and outputs as reported by the sub-agent, full pinned suite included)",
        "detection": det,
    }
    json.dump(meta, open(os.path.join(dst, "meta.json"), "w"), indent=1)
    print(key, "caught" if det.get("caught") else "missed", "|", meta["needs_to_manifest"][:70])
