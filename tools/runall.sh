#!/bin/sh
# Runs every registered check (quick tier by default) and prints one summary line per property.
cd /verif
tier=${1:-quick}
for p in $(jq -r '.checks[].property_id' MANIFEST.json); do
  out=$(./check $p $tier 2>&1); rc=$?
  echo "$p exit=$rc $(echo "$out" | grep '^property' | tail -1)"
  echo "$out" | grep '^VIOLATION' | head -5
done
