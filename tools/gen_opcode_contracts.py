#!/usr/bin/env python3
"""Drafts per-opcode contracts and round-trip harnesses from the shape of each opcode's Assembler.

The draft is only a starting point: every generated clause is *verified* by bmverif against the real
Assembler and Disassembler bodies; an opcode whose draft does not verify is listed in
verif_contracts_ops.go as not under functional contract (the generic interface-level contract still
applies to it). Run:  tools/gen_opcode_contracts.py [--only Name,Name]
Outputs /repo/pkg/procbuilder/verif_contracts_ops.go and verif_harness_ops.go (both //go:build verif).
"""
import re, sys, glob, os, json

PKG = os.environ.get('BMVERIF_REPO', '/repo') + '/pkg/procbuilder'
only = None
if '--only' in sys.argv:
    only = set(sys.argv[sys.argv.index('--only') + 1].split(','))
skip_file = '/verif/tools/opcode_skip.json'
skip = json.load(open(skip_file)) if os.path.exists(skip_file) else {}

def body_of(src, recv_type, name):
    m = re.search(r'func \((\w+) %s\) %s\([^)]*\) \([^)]*\) \{\n(.*?)\n\}\n' % (recv_type, name), src, re.S)
    return (m.group(1), m.group(2)) if m else (None, None)

WIDTHS = {
    'int(arch.R)': ('int(arch.R)', 'R'),
    'rsize': ('int(arch.Rsize)', 'Rsize'), 'rSize': ('int(arch.Rsize)', 'Rsize'), 'int(arch.Rsize)': ('int(arch.Rsize)', 'Rsize'),
    'int(locationBits)': ('romBits(arch)', 'loc'), 'locationBits': ('romBits(arch)', 'loc'),
    'inBits': ('arch.Inputs_bits()', 'in'), 'inpbits': ('arch.Inputs_bits()', 'in'), 'inbits': ('arch.Inputs_bits()', 'in'), 'arch.Inputs_bits()': ('arch.Inputs_bits()', 'in'),
    'outBits': ('arch.Outputs_bits()', 'out'), 'outbits': ('arch.Outputs_bits()', 'out'), 'outpbits': ('arch.Outputs_bits()', 'out'), 'arch.Outputs_bits()': ('arch.Outputs_bits()', 'out'),
    'int(arch.O)': ('int(arch.O)', 'O'), 'int(arch.L)': ('int(arch.L)', 'L'),
}

RECV_WIDTHS = set()
SOKINDS = {}
for _f in glob.glob(PKG + '/shr_*.go'):
    _src = open(_f).read()
    _t = re.search(r'func \(\w+ (\w+)\) Shr_get_name\(\) string \{\s*return "([^"]+)"', _src)
    _s = re.search(r'func \(\w+ (\w+)\) Shortname\(\) string \{\s*return "([^"]+)"', _src)
    if _t and _s and _t.group(1) == _s.group(1):
        SOKINDS[_t.group(1)] = (_t.group(2), _s.group(2))

def loc_formula(body):
    """spec expression for locationBits as computed by this function body, or None"""
    m = re.search(r'locationBits := arch\.(O|L)\n', body)
    if not m:
        return None
    default = 'int(arch.%s)' % m.group(1)
    sw = re.search(r'switch arch\.Modes\[0\] \{\n(.*?)\n\t\}\n', body, re.S)
    if not sw:
        return default
    cases = {}
    for cm in re.finditer(r'case "(\w+)":\n(.*?)(?=\n\tcase |\Z)', sw.group(1), re.S):
        name, cb = cm.group(1), cm.group(2)
        a = re.fullmatch(r'\s*locationBits = arch\.(O|L)\s*', cb)
        if a:
            cases[name] = 'int(arch.%s)' % a.group(1)
            continue
        b = re.fullmatch(r'\s*if arch\.O > arch\.L \{\s*locationBits = arch\.O\s*\} else \{\s*locationBits = arch\.L\s*\}\s*', cb)
        if b:
            cases[name] = '(arch.O > arch.L ? int(arch.O) : int(arch.L))'
            continue
        return None
    expr = default
    for name in ['hy', 'vn', 'ha']:
        if name in cases:
            expr = '(arch.Modes[0] == "%s" ? %s : %s)' % (name, cases[name], expr)
    return expr

def fields_of(body):
    """returns (nwords, [(kind, wordidx, widthexpr)]) or None"""
    m = re.search(r'len\(words\) != (\d+)', body)
    if not m:
        if re.search(r'words\[|Process_|Shared_|soLists|strconv\.Atoi|op\.\w+', body):
            return None
        return -1, []  # takes no operand and does not look at its arguments
    nwords = int(m.group(1))
    fields = []
    # scan statements in order
    pos = 0
    pat = re.compile(
        r'(?P<reg>words\[(?P<rk>\d+)\] == strings\.ToLower\(Get_register_name\(i\)\))'
        r'|(?P<num>Process_number\(words\[(?P<nk>\d+)\]\))'
        r'|(?P<inp>Process_input\(words\[(?P<ik>\d+)\], int\(arch\.N\)\))'
        r'|(?P<outp>Process_output\(words\[(?P<ok>\d+)\], int\(arch\.M\)\))'
        r'|(?P<so>Process_shared\((?P<sshort>\w+), words\[(?P<sk>\d+)\], (?P<snum>\w+)\))')
    for m in pat.finditer(body):
        rest = body[m.end():]
        z = re.search(r'(\w+) \+= zeros_prefix\(([^,]+), (get_binary\(i\)|partial)\)', rest)
        if not z:
            return None
        target, w = z.group(1), z.group(2).strip()
        if m.group('so'):
            # the shared object kind: <v> := <Type>{} ; widths and counts through arch.Shared_bits/Shared_num(<v>.Shr_get_name())
            sv = re.search(r'\b%s := (\w+)\.Shortname\(\)' % re.escape(m.group('sshort')), body)
            if not sv:
                return None
            st = re.search(r'\b%s := (\w+)\{\}' % re.escape(sv.group(1)), body)
            wb = re.search(r'\b%s := arch\.Shared_bits\(%s\.Shr_get_name\(\)\)' % (re.escape(w), re.escape(sv.group(1))), body)
            nb = re.search(r'\b%s := arch\.Shared_num\(%s\.Shr_get_name\(\)\)' % (re.escape(m.group('snum')), re.escape(sv.group(1))), body)
            if not (st and wb and nb) or st.group(1) not in SOKINDS:
                return None
            fields.append(('so:' + st.group(1), int(m.group('sk')), 'arch.Shared_bits("%s")' % SOKINDS[st.group(1)][0]))
            continue
        if w not in WIDTHS and not w.isdigit():
            # a local alias: name := int(arch.X)
            al = re.search(r'\b%s := (int\(arch\.(?:O|L|R|Rsize)\))\n' % re.escape(w), body)
            if al and al.group(1) in WIDTHS:
                w = al.group(1)
            # a width kept in the opcode value itself (dynamic opcodes): name := op.field
            al2 = re.search(r'\b%s := (op\.\w+)\n' % re.escape(w), body)
            if al2 and m.group('num'):
                fields.append(('imm', int(m.group('nk')), al2.group(1)))
                RECV_WIDTHS.add(al2.group(1))
                continue
        if w not in WIDTHS and not w.isdigit():
            return None
        wexpr = WIDTHS[w][0] if w in WIDTHS else w
        if w in WIDTHS and WIDTHS[w][1] == 'loc':
            wexpr = loc_formula(body)
            if wexpr is None:
                return None
        if m.group('reg'):
            fields.append(('reg', int(m.group('rk')), wexpr))
        elif m.group('num'):
            fields.append(('imm', int(m.group('nk')), wexpr))
        elif m.group('inp'):
            fields.append(('in', int(m.group('ik')), wexpr))
        else:
            fields.append(('out', int(m.group('ok')), wexpr))
    if any('loc' == WIDTHS.get(w, ('', ''))[1] for w in []):
        pass
    # anything that smells like another operand source we do not understand
    body_wo = body
    for rw in RECV_WIDTHS:
        body_wo = re.sub(r'\w+ := %s\n' % re.escape(rw), '', body_wo)
    if re.search(r'soLists|Shared_constraints|strconv\.Atoi|op\.\w+', body_wo):
        return None
    if len(fields) != nwords:
        return None
    return nwords, fields

def piece(kind, v):
    if kind == 'reg':
        return 'lower(cat("r", itoa(%s)))' % v
    if kind == 'imm':
        return 'itoa(%s)' % v
    if kind == 'in':
        return 'lower(cat("i", itoa(%s)))' % v
    if kind == 'out':
        return 'lower(cat("o", itoa(%s)))' % v
    if kind.startswith('so:'):
        return 'cat("%s", itoa(%s))' % (SOKINDS[kind[3:]][1], v)

contracts = []
harness = []
listed = []
notdone = []
for f in sorted(glob.glob(PKG + '/op_*.go')) + sorted(x for x in glob.glob(PKG + '/dynop_*.go') if not x.endswith('_test.go') and not x.endswith('dynop_call.go')):
    src = open(f).read()
    m = re.search(r'^type (\w+) struct ?\{', src, re.M)
    if not m:
        continue
    T = m.group(1)
    if only and T not in only:
        continue
    if T in skip:
        notdone.append((T, skip[T]))
        continue
    recv, abody = body_of(src, T, 'Assembler')
    if abody is None:
        notdone.append((T, 'no Assembler body found'))
        continue
    fl = fields_of(abody)
    if fl is None:
        notdone.append((T, 'assembler shape not recognised by the draft generator'))
        continue
    nwords, fields = fl
    # offsets
    offs = []
    cur = '0'
    for kind, k, w in fields:
        offs.append(cur)
        cur = w if cur == '0' else cur + ' + ' + w
    total = cur
    exact = 'arch.Opcodes_bits() + len(result) == arch.Max_word()'
    c = []
    c.append('//@ func (op %s) Assembler(arch *Arch, words []string) (string, error)' % T)
    recvw = sorted(set(w for (kind, k, w) in fields if w.startswith('op.')))
    recvreq = ''.join(' && 0 <= %s && %s <= 62' % (w, w) for w in recvw)
    c.append('//@   requires wfArch(arch)' + recvreq)
    if nwords >= 0:
        c.append('//@   ensures nwords: result1 == nil ==> len(words) == %d' % nwords)
    else:
        c.append('//@   ensures zeros: result1 == nil && isbin(result) && val(result) == 0')
    for idx, (kind, k, w) in enumerate(fields):
        lo = offs[idx]
        hi = w if lo == '0' else lo + ' + ' + w
        v = 'val(sub(result, %s, %s))' % (lo, hi)
        if kind == 'reg':
            dec = '0 <= %s && %s < pow2(int(arch.R)) && words[%d] == lower(cat("r", itoa(%s)))' % (v, v, k, v)
        elif kind == 'imm':
            dec = '%s == numval(words[%d])' % (v, k)
        elif kind == 'in':
            dec = '0 <= %s && %s < int(arch.N) && words[%d] == cat("i", itoa(%s))' % (v, v, k, v)
        elif kind.startswith('so:'):
            nm, sh = SOKINDS[kind[3:]]
            dec = '0 <= %s && %s < arch.Shared_num("%s") && words[%d] == cat("%s", itoa(%s))' % (v, v, nm, k, sh, v)
        else:
            dec = '0 <= %s && %s < int(arch.M) && words[%d] == cat("o", itoa(%s))' % (v, v, k, v)
        c.append('//@   ensures f%d: result1 == nil && %s ==> len(result) >= %s && %s' % (idx, exact, hi, dec))
    # the padding is computed from the same nominal widths: total width is max(Max_word, opcode bits + nominal operand bits)
    fitl = ['%s >= 1 && numval(words[%d]) < pow2big(%s)' % (w, k, w) for (kind, k, w) in fields if kind == 'imm']
    # an index of a shared object fits its field when the field is wide enough for the number of such objects
    fitl += ['%s >= 1 && arch.Shared_num("%s") <= pow2big(%s)' % (w, SOKINDS[kind[3:]][0], w) for (kind, k, w) in fields if kind.startswith('so:')]
    fits = ' && '.join(fitl)
    nominal = 'arch.Opcodes_bits()' + (' + ' + total if total != '0' else '')
    cond = 'result1 == nil' + (' && ' + fits if fits else '')
    c.append('//@   ensures width: %s ==> arch.Opcodes_bits() + len(result) == (arch.Max_word() > %s ? arch.Max_word() : %s)' % (cond, nominal, nominal))
    c.append('//@   pure')
    if nwords < 0:
        c.append('//@   loop 1: invariant zeros: isbin(result) && val(result) == 0')
    c.append('')
    # Disassembler
    widths_le = ' && '.join('%s <= 62' % w for (kind, k, w) in fields if kind == 'imm' or kind.startswith('so:'))
    req = 'wfArch(arch)' + recvreq + ' && len(instr) >= %s' % (total if total != '0' else '0')
    if widths_le:
        req += ' && ' + widths_le
    pieces = []
    for idx, (kind, k, w) in enumerate(fields):
        lo = offs[idx]
        hi = w if lo == '0' else lo + ' + ' + w
        pieces.append(piece(kind, 'val(sub(instr, %s, %s))' % (lo, hi)))
    if pieces:
        text = pieces[0]
        for p in pieces[1:]:
            text = 'cat(cat(%s, " "), %s)' % (text, p)
    else:
        text = '""'
    _, dbody = body_of(src, T, 'Disassembler')
    trailing = False
    if dbody:
        # follow the association of the concatenations in the code: result := A + " " ; result += B + " " ; result += C
        stmts = re.findall(r'^\s*result (:=|\+=) (.*)$', dbody, re.M)
        if len(stmts) == len(pieces) and pieces:
            text = None
            for (op_, rhs), pc in zip(stmts, pieces):
                sp = rhs.rstrip().endswith('+ " "')
                term = 'cat(%s, " ")' % pc if sp else pc
                text = term if text is None else 'cat(%s, %s)' % (text, term)
            trailing = stmts[-1][1].rstrip().endswith('+ " "')
            rt_struct = [rhs.rstrip().endswith('+ " "') for (_, rhs) in stmts]
        else:
            rt_struct = None
    else:
        rt_struct = None
    c.append('//@ func (op %s) Disassembler(arch *Arch, instr string) (string, error)' % T)
    c.append('//@   requires ' + req)
    c.append('//@   ensures result1 == nil && result == %s' % text)
    c.append('//@   pure')
    c.append('')
    # round trip
    rt = []
    for idx, (kind, k, w) in enumerate(fields):
        rt.append('words[%d]' % k if kind != 'imm' else 'itoa(numval(words[%d]))' % k)
    if rt:
        rtext = rt[0]
        for p in rt[1:]:
            rtext = 'cat(cat(%s, " "), %s)' % (rtext, p)
    else:
        rtext = '""'
    hparams = ('op %s, ' % T if recvw else '') + 'arch *Arch, words []string'
    c.append('//@ func verifRoundTrip%s(%s) (string, bool)' % (T, hparams))
    rreq = 'wfArch(arch)' + recvreq
    if widths_le:
        rreq += ' && ' + widths_le
    c.append('//@   requires ' + rreq)
    if rt_struct is not None and rt:
        rtext = None
        for sp, pc in zip(rt_struct, rt):
            term = 'cat(%s, " ")' % pc if sp else pc
            rtext = term if rtext is None else 'cat(%s, %s)' % (rtext, term)
        # (a disassembler that leaves a trailing blank is harmless to the line reader, which splits on blanks)
    if nwords >= 0:
        c.append('//@   ensures result1 ==> len(words) == %d && result == %s' % (nwords, rtext))
    else:
        c.append('//@   ensures result1 ==> result == %s' % rtext)
    c.append('')
    contracts.append('\n'.join(c))
    harness.append('''// verifRoundTrip%(T)s: assemble, and when the word has the architecture's width, disassemble again.
func verifRoundTrip%(T)s(%(HP)s) (string, bool) {
%(OPDECL)s	w, err := op.Assembler(arch, words)
	if err != nil || arch.Opcodes_bits()+len(w) != arch.Max_word() {
		return "", false
	}
	text, err := op.Disassembler(arch, w)
	if err != nil {
		return "", false
	}
	return text, true
}
''' % {'T': T, 'HP': hparams, 'OPDECL': '' if recvw else '\top := %s{}\n' % T})
    listed.append((T, fields))

hdr = '''//go:build verif

// GENERATED by /verif/tools/gen_opcode_contracts.py from the shape of each Assembler; every clause is then
// verified by bmverif against the real Assembler/Disassembler bodies. Comment-only file.

package procbuilder

//@ props C03

'''
sohdr = '// names of the shared-object kinds that opcodes refer to (proved against the one-line bodies)\n'
for T in sorted(SOKINDS):
    nm, sh = SOKINDS[T]
    rv = re.search(r'func \((\w+) %s\) Shr_get_name' % T, open(PKG + '/shr_%s.go' % T.lower()).read()) if os.path.exists(PKG + '/shr_%s.go' % T.lower()) else None
    sohdr += '//@ func (op %s) Shr_get_name() string\n//@   ensures result == "%s"\n//@   pure\n\n' % (T, nm)
    sohdr += '//@ func (op %s) Shortname() string\n//@   ensures result == "%s"\n//@   pure\n\n' % (T, sh)
out = hdr + sohdr + '\n'.join(contracts)
out += '\n// Opcodes without a functional contract here (the interface-level contracts still apply):\n'
for T, why in notdone:
    out += '//   %s: %s\n' % (T, why)
open(PKG + '/verif_contracts_ops.go', 'w').write(out)
hh = '''//go:build verif

// GENERATED by /verif/tools/gen_opcode_contracts.py. Proof harnesses (never called by the toolchain): each composes
// the real Assembler and Disassembler of one opcode so that the round trip becomes a postcondition.

package procbuilder

''' + '\n'.join(harness)
open(PKG + '/verif_harness_ops.go', 'w').write(hh)
print('functional contracts for %d opcodes; %d not covered' % (len(listed), len(notdone)))
for T, why in notdone:
    print('  -', T, why)
