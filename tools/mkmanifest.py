#!/usr/bin/env python3
# Regenerates MANIFEST.json from tools/manifest_data.py (claimed checks + not-applicable reasons).
import json, subprocess, sys
sys.path.insert(0, '/verif/tools')
from manifest_data import CHECKS, NOT_APPLICABLE, HOOK_COMMITS
# the guarded (build tag verif) commits of /repo are those whose subject starts with "verif:"; read them from the log
try:
    out = subprocess.run(['git', '-C', '/repo', 'log', '--reverse', '--format=%h %s'], capture_output=True, text=True, check=True).stdout
    hc = [l.split()[0] for l in out.splitlines() if len(l.split()) > 1 and l.split()[1] == 'verif:']
    if hc:
        HOOK_COMMITS = hc
except Exception:
    pass
props = [json.loads(l) for l in open('/verif/properties.jsonl')]
ids = [p['id'] for p in props]
checks = []
for pid in ids:
    if pid in CHECKS:
        c = CHECKS[pid]
        checks.append({
            "property_id": pid,
            "quick_cmd": f"./check {pid} quick",
            "thorough_cmd": f"./check {pid} thorough",
            "evidence_file": f"/verif/evidence/{pid}.json",
            "replay_cmd_template": "./check --replay {path}",
            "engine": "bmverif",
            "level_claimed": {"category": "proof", "text": c["text"], "design_ref": c.get("design_ref", "DESIGN.md section 3")},
            "level_note": c["note"],
            "technique": c.get("technique", "contract-based deductive verification: weakest-precondition style VCs generated from go/ssa of the real functions under comment contracts, discharged by z3/cvc5"),
        })
na = [{"property_id": pid, "reason": NOT_APPLICABLE[pid]} for pid in ids if pid not in CHECKS]
missing = [pid for pid in ids if pid not in CHECKS and pid not in NOT_APPLICABLE]
assert not missing, missing
m = {
 "version": 1,
 "setup_cmd": "./setup.sh",
 "hooks": {"guard": "verif",
           "enable": "contracts are comment-only files pkg/*/verif_contracts*.go with //go:build verif; bmverif loads /repo with -tags verif",
           "baseline_off_cmd": "cd /repo && GOFLAGS=-mod=mod GOPROXY=off GOSUMDB=off GOTOOLCHAIN=local go test -mod=mod -json -vet=off -count=1 -timeout 25m ./...",
           "source_commits": HOOK_COMMITS, "add_only": True},
 "engines": [{"name": "bmverif", "path": "/verif/bmverif", "serves_properties": sorted(CHECKS.keys()),
              "kind_free_text": "self-written VC generator: go/ssa (naive form) of the real functions + comment contracts -> SMT-LIB; z3 5.1.0 / z3 4.8.12 / cvc5 1.0 raced per obligation"}],
 "checks": checks,
 "not_applicable": na,
 "notes": "See DESIGN.md. Every check reloads /repo's working tree; scratch lives under /var/tmp and is removed.",
}
json.dump(m, open('/verif/MANIFEST.json', 'w'), indent=1)
print("checks:", [c["property_id"] for c in checks], "n/a:", [x["property_id"] for x in na])
