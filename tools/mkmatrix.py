#!/usr/bin/env python3
"""Rewrites the seeded-change table of DESIGN.md (between the seed-matrix markers) from seeded/*/*/meta.json."""
import json, glob, os, re
rows = []
for m in sorted(glob.glob('/verif/seeded/*/*/meta.json')):
    d = json.load(open(m))
    det = d['detection']
    title = re.sub(r'^C\d+\s*/\s*(change\s*)?\w\s*[-—–]+\s*', '', d['title']).strip()
    title = re.sub(r'^C\d+\s*/\s*change\s*\w\s*[-—–]+\s*', '', title)
    files = ", ".join(os.path.basename(f) for f in d['files_touched'])
    if det.get('caught'):
        ob = det['failing_obligations'][0] if det['failing_obligations'] else ''
        ob = ob.split(': obligation not')[0].split(': expected')[0].split(': function left')[0]
        res = "**caught** by `./check %s`: `%s`" % (d['property'], ob)
        if det.get('note'):
            res += " (" + det['note'] + ")"
    else:
        res = "missed — " + det.get('why_missed', '')
    rows.append("| %s | %s (%s) | %s |" % (d['seed'], title.replace('|', '\\|'), files, res.replace('|', '\\|')))
tab = "| seed | change | outcome |\n|---|---|---|\n" + "\n".join(rows)
caught = sum(1 for r in rows if '**caught**' in r)
tab += "\n\n%d of %d seeded changes are caught. The misses are all in code that is not under contract, for the reason given; none is a change inside a function under contract that the check failed to notice - with one qualification: C11/g (round 3) sits inside `Machine_json.Dejsoner`, which is under contract, and in the first pass it was reported only because the change restructures the loops (inventory guard), not because a postcondition failed: the contract spoke about opcodes registered *before* the call and was silent about the one the loop's own `EventuallyCreateInstruction` call creates. The invariant `current` closes that hole. Likewise C16/h is reported because it renames locals the invariants of `Arch.Assembler` mention, not by a failed clause.\n" % (caught, len(rows))
s = open('/verif/DESIGN.md').read()
s = re.sub(r'<!-- seed-matrix-begin -->.*<!-- seed-matrix-end -->', lambda _: '<!-- seed-matrix-begin -->\n' + tab + '<!-- seed-matrix-end -->', s, flags=re.S)
open('/verif/DESIGN.md', 'w').write(s)
print(caught, "of", len(rows))
