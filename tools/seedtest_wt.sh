#!/bin/sh
# usage: tools/seedtest_wt.sh <PROP> <dir-with-seeds (sub-dirs a b c ... each with patch.diff)>
# Like seedtest.sh, but never touches /repo's tree: each change is applied to a scratch worktree of /repo's HEAD
# and the property's check runs against that worktree with its output in a scratch directory.
prop=$1; dir=$2
cd /verif
export GOFLAGS=-mod=mod GOPROXY=off GOSUMDB=off GOTOOLCHAIN=local
for d in "$dir"/*/; do
  [ -f "$d/patch.diff" ] || continue
  name=$(basename "$d")
  wt=/var/tmp/bmverif_seedwt_$$_${prop}_$name; out=/var/tmp/bmverif_seedout_$$
  git -C /repo worktree add --detach "$wt" HEAD >/dev/null 2>&1 || { echo "$prop/$name: cannot create worktree"; continue; }
  if git -C "$wt" apply "$(cd "$d" && pwd)/patch.diff" 2>/dev/null; then
    res=$(bin/bmverif check -prop "$prop" -tier quick -repo "$wt" -verif /verif -out "$out" 2>&1); rc=$?
    nv=$(echo "$res" | grep -c '^VIOLATION')
    echo "$prop/$name: exit=$rc violations=$nv"
    echo "$res" | grep -A1 '^VIOLATION' | grep obligation | head -4
  else
    echo "$prop/$name: patch does not apply"
  fi
  git -C /repo worktree remove --force "$wt" >/dev/null 2>&1; rm -rf "$wt" "$out"
done
