#!/bin/sh
# usage: tools/confirm_seed.sh <PROP> <letter>   (reads /verif/seeded_staging/<PROP>/<letter>)
# Confirms a seeded change in a scratch worktree of /repo's HEAD: demo passes without the change, fails with it,
# the touched packages still build and their existing tests still pass. Prints a JSON object.
prop=$1; x=$2
src=${SEED_BASE:-/verif/seeded_staging}/$prop/$x
wt=/var/tmp/seedconfirm_$prop$x
export GOFLAGS=-mod=mod GOPROXY=off GOSUMDB=off GOTOOLCHAIN=local
git -C /repo worktree remove --force $wt >/dev/null 2>&1
git -C /repo worktree add --detach $wt HEAD >/dev/null 2>&1 || { echo "{\"error\":\"worktree\"}"; exit 1; }
cd $wt
demo=$(ls $src/zz_seed*_test.go 2>/dev/null | head -1); [ -n "$demo" ] || { echo "{\"seed\":\"$prop/$x\",\"error\":\"no demo test\"}"; git -C /repo worktree remove --force $wt >/dev/null 2>&1; exit 1; }
pkg=$(grep -l "" $src/patch.diff >/dev/null; grep '^+++ b/' $src/patch.diff | head -1 | sed 's#^+++ b/##; s#/[^/]*$##')
# the demo's package: from the notes or by the package clause
dpkgname=$(grep -m1 '^package ' $demo | awk '{print $2}')
dpkg=$(for d in $(grep '^+++ b/' $src/patch.diff | sed 's#^+++ b/##; s#/[^/]*$##' | sort -u) pkg/bondmachine pkg/procbuilder pkg/basm pkg/bmnumbers pkg/simbox pkg/bmqsim; do if [ -d $d ] && grep -q "^package $dpkgname\$" $d/*.go 2>/dev/null; then echo $d; break; fi; done)
tname=$(grep -o 'func Test[A-Za-z0-9_]*' $demo | sed 's/func //' | tr '\n' '|' | sed 's/|$//')
cp $demo $dpkg/
before=$(go test -vet=off -count=1 -timeout 300s -run "^($tname)\$" ./$dpkg 2>&1 | tail -3 | tr '\n' ' ')
applies=yes
git apply $src/patch.diff 2>/dev/null || applies=no
after=$(go test -vet=off -count=1 -timeout 300s -run "^($tname)\$" ./$dpkg 2>&1 | tail -3 | tr '\n' ' ')
rm -f $dpkg/$(basename $demo)
pkgs=$(grep '^+++ b/' $src/patch.diff | sed 's#^+++ b/##; s#/[^/]*$##' | sort -u | sed 's#^#./#' | tr '\n' ' ')
suite=$(go test -vet=off -count=1 -timeout 600s $pkgs ./pkg/procbuilder ./pkg/bondmachine ./pkg/simbox 2>&1 | grep -v "^ok\|no test files" | grep -v "TestNumberToBinary" | tail -4 | tr '\n' ' ')
cd /; git -C /repo worktree remove --force $wt >/dev/null 2>&1
python3 - "$prop" "$x" "$dpkg" "$tname" "$applies" "$before" "$after" "$suite" <<'PY'
import json,sys
prop,x,dpkg,tname,applies,before,after,suite=sys.argv[1:9]
print(json.dumps({"seed":prop+"/"+x,"demo_package":dpkg,"demo_test":tname,"patch_applies_to_head":applies=="yes",
 "demo_without_change":"pass" if before.strip().startswith("ok") or " ok " in " "+before else "FAIL: "+before[-200:],
 "demo_with_change":"fail" if "FAIL" in after else "UNEXPECTED: "+after[-200:],
 "existing_tests_of_touched_packages":"pass" if suite.strip()=="" else suite[-300:]}))
PY
