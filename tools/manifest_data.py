HOOK_COMMITS = ["fecef71"]
T = "trusted base: the bmverif SSA->SMT translation (T1), the solvers (T4), assumed stdlib contracts in spec/*.spec (T3); see evidence.assumptions for the exact list of this run. "
CHECKS = {
 "C10": {"text": "Unbounded proof, per edit operation, that the representation invariant wfBM (one link slot per internal input, links in range, endpoint lists in bijection with external ports and processor ports, witnessed by ghost maps) is preserved from any well-formed state, and that every bond not addressed keeps its two named endpoints modulo the documented renumbering; by induction this covers every finite edit history. Obligations are generated from the real Add_input/Del_input/Add_output/Del_output/Add_processor/Del_bond bodies on every run.",
         "note": T + "Preconditions 0<=id (negative ids panic before mutating). Attach_benchmark_core(V2) and Add_bond: see evidence for whether they are under contract in this run.",
         "design_ref": "DESIGN.md section 3 (C10)"},
}
PENDING = "check under construction in this session (DESIGN.md section 0 gives the planned decision)"
NOT_APPLICABLE = {
 "C01": PENDING, "C02": PENDING, "C03": PENDING, "C04": PENDING, "C08": PENDING, "C09": PENDING, "C11": PENDING, "C14": PENDING, "C15": PENDING, "C16": PENDING,
 "C05": "whole-program semantic equivalence of the BASM front-end through ~12 string/map rewriting passes and a goroutine-backed requirement server: no per-function contract in the verifiable subset expresses 'means what the source says'; a reference interpreter would be a different technique",
 "C06": "metamorphic equivalence over all partitions of all fragment graphs; fragmentcomposer.go is string/metadata rewriting outside the subset and the oracle is graph evaluation, not a function postcondition",
 "C07": "two-run hyperproperty over five tool pipelines (104 map-range loops with non-commuting bodies); the one instance with a crisp contract (ImportString's unique matcher) is decided under C08",
 "C12": "compiler correctness over all programs plus termination of a goroutine network: concurrency and liveness are outside sequential contracts",
 "C13": "refinement property of the reachable states of a generated Verilog module; the Go side only instantiates a text template",
 "C17": "goroutine/resource growth over call histories is a liveness/resource property, not a postcondition of any call",
 "C18": "validity of concatenated Verilog text w.r.t. an external front end; not expressible as a contract over Go values without embedding a Verilog grammar and scope checker",
}
