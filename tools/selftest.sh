#!/bin/sh
# Must-fail self test: every seeded change recorded as caught (seeded/<ID>/<x>/meta.json, detection.caught == true)
# is applied to a scratch git worktree of /repo's HEAD (never to /repo itself), the property's check is run against
# that worktree, and it has to report a violation. The scratch worktree and the scratch output are removed afterwards.
# usage: tools/selftest.sh [PROPERTY-ID ...]      exit 0: every recorded detection reproduced
cd "$(dirname "$0")/.." || exit 2
export GOFLAGS=-mod=mod GOPROXY=off GOSUMDB=off GOTOOLCHAIN=local
[ -x bin/bmverif ] || ./setup.sh >/dev/null || exit 2
want="$*"
fail=0; n=0
for meta in seeded/*/*/meta.json; do
  d=$(dirname "$meta"); prop=$(jq -r .property "$meta"); seed=$(jq -r .seed "$meta")
  [ "$(jq -r .detection.caught "$meta")" = "true" ] || continue
  if [ -n "$want" ]; then case " $want " in *" $prop "*) ;; *) continue;; esac; fi
  wt=/var/tmp/bmverif_selftest_$$_$(echo "$seed" | tr '/' '_'); out=/var/tmp/bmverif_selftest_out_$$
  git -C /repo worktree add --detach "$wt" HEAD >/dev/null 2>&1 || { echo "SELFTEST $seed: cannot create worktree"; fail=1; continue; }
  if git -C "$wt" apply "$(pwd)/$d/patch.diff" 2>/dev/null; then
    res=$(bin/bmverif check -prop "$prop" -tier quick -repo "$wt" -verif "$(pwd)" -out "$out" 2>&1); rc=$?
    nv=$(echo "$res" | grep -c '^VIOLATION')
    if [ $rc -eq 1 ] && [ "$nv" -ge 1 ]; then
      echo "SELFTEST $seed: caught ($nv violation lines; first: $(echo "$res" | grep -A1 '^VIOLATION' | grep obligation | head -1 | cut -c1-160))"
    else
      echo "SELFTEST $seed: NOT CAUGHT any more (exit=$rc)"; fail=1
    fi
  else
    echo "SELFTEST $seed: patch no longer applies to HEAD"; fail=1
  fi
  n=$((n+1))
  git -C /repo worktree remove --force "$wt" >/dev/null 2>&1; rm -rf "$wt" "$out"
done
git -C /repo worktree prune >/dev/null 2>&1
echo "SELFTEST: $n seeded changes replayed, failures: $fail"
exit $fail
