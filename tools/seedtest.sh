#!/bin/sh
# usage: tools/seedtest.sh <PROP> <dir-with-seeds (each sub-dir has patch.diff)> [check-id]
# Applies each seeded change to /repo, runs the property's quick check, reverts. Prints one line per seed.
prop=$1; dir=$2; chk=${3:-$1}
cd /verif
for d in "$dir"/*/; do
  [ -f "$d/patch.diff" ] || continue
  name=$(basename "$d")
  if ! git -C /repo apply --check "$d/patch.diff" 2>/dev/null; then echo "$prop/$name: patch does not apply"; continue; fi
  git -C /repo apply "$d/patch.diff"
  out=$(./check "$chk" quick 2>&1); rc=$?
  git -C /repo checkout -- . 
  nv=$(echo "$out" | grep -c '^VIOLATION')
  echo "$prop/$name: exit=$rc violations=$nv"
  echo "$out" | grep -A1 '^VIOLATION' | grep obligation | head -4
done
