#!/usr/bin/env python3
"""Round 3 only: turns the outputs of tools/seedtest_wt.sh (kept under /var/tmp while the round was run: det3_<ID>.txt,
r3_<ID>.txt for the runs repeated alone) plus the hand-written notes in tools/seed_detect3_notes.json into entries of
tools/seed_detect.json (keys <ID>/g, <ID>/h). Kept as the record of how those entries were produced; the inputs under
/var/tmp are scratch and are not needed by any registered check."""
import json,re,os,glob
detp='/verif/tools/seed_detect.json'
det=json.load(open(detp))
letters={'a':'g','b':'h'}
why={
 'C02/g':"the change is in an opcode's Verilog template (I2rw.Op_instruction_verilog_extra_block, emitted text); only the simulator side of C02 is under contract",
 'C04/h':"the change is in the emitted Verilog of r2owa's wait state machine (text); the HDL side of C04 is not decided",
 'C08/g':"fxpImport (dynamic fixed-point type) goes through strconv.ParseFloat, a float64 scale and binary.Write: floating point end to end, not under contract",
 'C08/h':"Float16.ExportString: floating-point notation, outside this family",
 'C14/g':"BmMatrixFromOperation's bookkeeping of qubit positions is not under contract (string/map/interface-heavy; the matrices it composes are float32 values)",
 'C14/h':"rotation-gate angle reduction (bmmatrix/identity.go) is float64 trigonometry: floating point is outside this family",
 'C15/g':"bondmachine.ImportNumber delegates to bmnumbers.ImportString/ExportUint64, whose values are not under contract (C08 decides widths and notation disjointness, not values); SimDrive.Init, its only caller, is outside the subset",
 'C16/g':"basm.assembler2NewBondMachine (requirement inference over strings and maps) is outside the verifiable subset",
}
notes={}
if os.path.exists('/verif/tools/seed_detect3_notes.json'):
    notes=json.load(open('/verif/tools/seed_detect3_notes.json'))
for f in sorted(glob.glob('/var/tmp/det3_C*.txt'))+sorted(glob.glob('/var/tmp/r3_C*.txt')):
    cur=None
    for l in open(f):
        m=re.match(r'^(C\d+)/(\w): exit=(\d+) violations=(\d+)',l)
        if m:
            key=m.group(1)+'/'+letters[m.group(2)]
            cur={"check":"./check %s quick (run by tools/seedtest_wt.sh on a scratch worktree with the change applied)"%m.group(1),
                 "caught": m.group(3)=='1' and int(m.group(4))>0, "violations_reported":int(m.group(4)), "failing_obligations":[]}
            if '/r3_' in f:
                cur["note"]="result of a second run made alone: the first run, made while two other detections were running (load average 40), had reported only timeouts of unrelated bondmachine.VM.Step obligations, which is machine load, not detection"
            det[key]=cur
            continue
        m=re.match(r'^\s+obligation (.*)$',l)
        if m and cur is not None:
            cur["failing_obligations"].append(m.group(1).strip())
for k in notes:
    det.setdefault(k,{})
for k,v in det.items():
    if k in ('C02/h','C04/g'):
        v['failing_obligations'].sort(key=lambda o: 0 if 'ensures[evaluated]' in o else 1)
    if k in notes:
        v.update(notes[k])
    if not v.get('caught') and k in why and not v.get('why_missed'):
        v['why_missed']=why[k]
json.dump(det,open(detp,'w'),indent=1)
for k in sorted(det):
    if k[-1] in 'gh': print(k, det[k]['caught'], det[k]['violations_reported'], (det[k]['failing_obligations'] or [''])[0][:100])
