#!/bin/sh
# Build the bmverif checker offline from files on disk only.
set -e
cd "$(dirname "$0")/bmverif"
export GOFLAGS=-mod=mod GOPROXY=off GOSUMDB=off GOTOOLCHAIN=local
mkdir -p ../bin
go build -o ../bin/bmverif .
